package rules

import (
	"fmt"
	"go/token"
	"go/types"
	"sort"
	"strings"

	"golang.org/x/tools/go/ssa"

	"rainverif/checker/kit"
)

// c10Env holds the slots of the C10 rules, all resolved from the program.
type c10Env struct {
	c *kit.Ctx
	k *keyer

	run *ssa.Function

	oStartAll, oStartFor, oStartSingle, oStartWebseed *types.Func
	oReqBlocks                                        *types.Func
	oStop                                             []*types.Func
	fPD, fInfoDL, fInfo                               *types.Var

	sites    map[*types.Func][]kit.Site // call sites by callee object, package torrent callers only
	asValue  map[*types.Func]bool       // functions of package torrent used as values (method values, closures' targets)
	teardown map[*ssa.Function]bool
}

// c10PeerWant says which re-run discharges an obligation.
//
//	nil       only a re-run for all idle peers (startPieceDownloaders)
//	&""       a re-run for any single peer or for all
//	&"expr"   a re-run for the peer whose canonical expression is expr, or for all
type c10PeerWant = *string

func c10Any() c10PeerWant { s := ""; return &s }

func c10Str(v ssa.Value) string { return kit.Canon(v).Strip().String() }

// c10IndexSites builds the callee -> call sites index for callers inside
// package torrent (one pass instead of one pass per callee).
func (e *c10Env) c10IndexSites() {
	e.sites = map[*types.Func][]kit.Site{}
	e.asValue = map[*types.Func]bool{}
	for _, fn := range e.c.ModuleFunctions() {
		if !inPkg(fn, e.c, "torrent") {
			continue
		}
		kit.Instrs(fn, func(ins ssa.Instruction) {
			ci, isCall := ins.(ssa.CallInstruction)
			if isCall {
				if o := kit.CalleeObj(ci.Common()); o != nil {
					e.sites[o] = append(e.sites[o], kit.Site{Fn: fn, Instr: ci})
				}
			}
			for _, op := range ins.Operands(nil) {
				f, ok := (*op).(*ssa.Function)
				if !ok || (isCall && ci.Common().Value == ssa.Value(f)) {
					continue
				}
				if f.Synthetic != "" {
					// bound-method wrapper / thunk: the method it forwards to
					kit.Instrs(f, func(i2 ssa.Instruction) {
						if c2, ok := i2.(*ssa.Call); ok {
							if o := kit.CalleeObj(&c2.Call); o != nil {
								e.asValue[o] = true
							}
						}
					})
					continue
				}
				if o, ok := f.Object().(*types.Func); ok {
					e.asValue[o.Origin()] = true
				}
			}
		})
	}
	for o := range e.sites {
		sortSites(e.sites[o])
	}
}

func c10Outer(fn *ssa.Function) *ssa.Function {
	for fn != nil && fn.Parent() != nil {
		fn = fn.Parent()
	}
	return fn
}

// c10Teardown computes the functions that only run while the torrent is
// being torn down: the named roots and every function all of whose call
// sites are in teardown functions.
func (e *c10Env) c10Teardown(roots ...*ssa.Function) {
	e.teardown = map[*ssa.Function]bool{}
	for _, r := range roots {
		e.teardown[r] = true
	}
	for changed := true; changed; {
		changed = false
		for _, fn := range e.c.ModuleFunctions() {
			if e.teardown[fn] || fn.Parent() != nil || !inPkg(fn, e.c, "torrent") {
				continue
			}
			obj, _ := fn.Object().(*types.Func)
			if obj == nil {
				continue
			}
			ss := e.sites[obj]
			if len(ss) == 0 || e.asValue[obj] {
				continue
			}
			all := true
			for _, s := range ss {
				if !e.teardown[c10Outer(s.Fn)] {
					all = false
					break
				}
			}
			if all {
				e.teardown[fn] = true
				changed = true
			}
		}
	}
}

func (e *c10Env) c10IsStop(ins ssa.Instruction) bool {
	if _, isCall := ins.(*ssa.Call); !isCall {
		return false
	}
	return kit.CallsAny(ins, e.oStop...)
}

// c10Rerun reports whether ins re-runs the picker as demanded by want:
// a direct call of a primitive, or a call of a helper in package torrent
// every returning path of which re-runs it (the peer argument is mapped to
// the helper's parameter).
func (e *c10Env) c10Rerun(ins ssa.Instruction, want c10PeerWant, depth int) bool {
	if _, isGo := ins.(*ssa.Go); isGo {
		return false
	}
	cc := kit.CallOf(ins)
	if cc == nil {
		return false
	}
	o := kit.CalleeObj(cc)
	if o == nil {
		return false
	}
	switch o {
	case e.oStartAll:
		return true
	case e.oStartFor, e.oStartSingle:
		if want == nil {
			return false
		}
		return *want == "" || c10Str(argOf(cc, 1)) == *want
	}
	if depth <= 0 {
		return false
	}
	callee := cc.StaticCallee()
	if callee == nil || callee.Blocks == nil || !inPkg(callee, e.c, "torrent") {
		return false
	}
	sub := want
	if want != nil && *want != "" {
		sub = nil
		for i, a := range cc.Args {
			if i < len(callee.Params) && c10Str(a) == *want {
				s := c10Str(callee.Params[i])
				sub = &s
			}
		}
		// sub == nil: the peer is not handed to the helper, only a re-run
		// for everybody can serve it
	}
	return e.c.MustCallSummary(callee, func(i2 ssa.Instruction) bool { return e.c10Rerun(i2, sub, depth-1) }, 0)
}

// c10Flow is the "no pending obligation" flow: entry true; opened by an
// instruction or a branch edge; closed by closeIns, by a closing edge, or
// by the torrent being stopped.
type c10Flow struct {
	open      func(ssa.Instruction) bool
	edgeOpen  func(kit.Atom) bool
	closeIns  func(ssa.Instruction) bool
	edgeClose func(kit.Atom) bool
}

// c10After solves the flow on fn and returns the exits reached with the
// obligation still pending: returns and, in the event loop, the blocking
// select the loop goes back to.
func (e *c10Env) c10After(fn *ssa.Function, f c10Flow) []token.Pos {
	fl := &kit.Flow{P: e.c.Prog, Fn: fn, Entry: true}
	if f.edgeOpen != nil {
		fl.EdgeKill = f.edgeOpen
	}
	if f.edgeClose != nil {
		fl.Edge = f.edgeClose
	}
	fl.Instr = func(ins ssa.Instruction, in bool) bool {
		if f.closeIns != nil && f.closeIns(ins) {
			return true
		}
		if e.c10IsStop(ins) {
			return true
		}
		if f.open != nil && f.open(ins) {
			return false
		}
		return in
	}
	fl.Solve()
	var out []token.Pos
	for _, r := range fl.FailingReturns() {
		out = append(out, posOf(r))
	}
	if fn == e.run {
		kit.Instrs(fn, func(ins ssa.Instruction) {
			if sel, ok := ins.(*ssa.Select); ok && sel.Blocking && len(sel.States) > 4 && !fl.Before(sel) {
				out = append(out, posOf(sel))
			}
		})
	}
	return out
}

// c10MetaExempt reports whether ins executes only for a peer that has an
// info (metadata) downloader: then the torrent has no info, hence no
// pieces, and closing the peer frees no piece. The premise "a peer has an
// info downloader only while t.info == nil" is checked separately
// (R10.1 premise obligations).
func (e *c10Env) c10MetaExempt(fn *ssa.Function, ins ssa.Instruction) bool {
	hit := e.c.AtomFlow(fn, func(a kit.Atom) bool {
		return a.IsTrue(func(x *kit.Expr) bool {
			return x.Kind == "extract" && x.Idx == 1 && x.Args[0].Kind == "lookup" && x.Args[0].Args[0].IsField(e.fInfoDL)
		})
	}, nil)
	return hit.Before(ins)
}

type c10Result struct {
	ok    bool
	how   string      // how it was discharged
	fails []token.Pos // the sites to blame
}

// c10Discharge decides the obligation "after `at` in fn every path to the
// handler's exit passes a re-run": inside fn itself, else at every live
// call site of fn (helpers), to the given depth. Call sites in teardown
// functions and metadata-only call sites are exempt. The sites blamed are
// the direct callers of fn, not the deeper ones.
func (e *c10Env) c10Discharge(fn *ssa.Function, f c10Flow, callerWant c10PeerWant, depth int) c10Result {
	if e.teardown[c10Outer(fn)] {
		return c10Result{ok: true, how: "teardown context (" + fn.Name() + ")"}
	}
	pend := e.c10After(fn, f)
	if len(pend) == 0 {
		return c10Result{ok: true, how: "re-run on every path in " + fn.Name()}
	}
	var exits []string
	for _, p := range pend {
		exits = append(exits, e.c.Pos(p))
	}
	fail := c10Result{how: fn.Name() + " can exit with the obligation pending at " + strings.Join(exits, ", ")}
	obj, _ := fn.Object().(*types.Func)
	if depth <= 0 || obj == nil || fn == e.run {
		return fail
	}
	ss := e.sites[obj]
	if len(ss) == 0 || e.asValue[obj] {
		return fail
	}
	var notes []string
	n := map[string]int{}
	for _, s := range ss {
		s := s
		if _, isGo := s.Instr.(*ssa.Go); isGo {
			fail.fails = append(fail.fails, posOf(s.Instr))
			continue
		}
		if e.teardown[c10Outer(s.Fn)] {
			n["teardown"]++
			continue
		}
		if e.c10MetaExempt(s.Fn, s.Instr) {
			n["metadata-only"]++
			continue
		}
		sub := e.c10Discharge(s.Fn, c10Flow{
			open:     func(i ssa.Instruction) bool { return i == ssa.Instruction(s.Instr) },
			closeIns: func(i ssa.Instruction) bool { return e.c10Rerun(i, callerWant, 2) },
		}, callerWant, depth-1)
		if sub.ok {
			n["re-run in caller"]++
		} else {
			fail.fails = append(fail.fails, posOf(s.Instr))
		}
	}
	if len(fail.fails) > 0 {
		sort.Slice(fail.fails, func(i, j int) bool { return fail.fails[i] < fail.fails[j] })
		return fail
	}
	for _, kx := range []string{"re-run in caller", "teardown", "metadata-only"} {
		if n[kx] > 0 {
			notes = append(notes, fmt.Sprintf("%d %s", n[kx], kx))
		}
	}
	return c10Result{ok: true, how: fmt.Sprintf("every call site of %s discharges it (%s)", fn.Name(), strings.Join(notes, ", "))}
}

// c10Report turns a result into an obligation.
func (e *c10Env) c10Report(rule, key string, pos token.Pos, r c10Result, okWhy, badWhy string) {
	if r.ok {
		e.c.OK(rule, key, pos, "%s: %s", okWhy, r.how)
		return
	}
	w := badWhy + ": " + r.how
	if len(r.fails) > 0 {
		var ps []string
		for _, p := range r.fails {
			ps = append(ps, e.c.Pos(p))
		}
		w += fmt.Sprintf("; %d call sites leave it pending: %s", len(r.fails), strings.Join(ps, ", "))
	}
	e.c.Bad(rule, key, pos, "%s", w)
}

// c10SelectArm finds the receive state of the event loop's select whose
// channel is (derived from) field f; it returns the select and the state
// index, or nil.
func (e *c10Env) c10SelectArm(f *types.Var) (*ssa.Select, int) {
	var sel *ssa.Select
	idx := -1
	kit.Instrs(e.run, func(ins ssa.Instruction) {
		s, ok := ins.(*ssa.Select)
		if !ok || !s.Blocking {
			return
		}
		for i, st := range s.States {
			if st.Dir == types.RecvOnly && kit.Canon(st.Chan).Mentions(func(x *kit.Expr) bool { return x.IsField(f) }) {
				sel, idx = s, i
			}
		}
	})
	return sel, idx
}

// c10ArmEdge is the edge predicate "the select dispatched to state idx".
func c10ArmEdge(sel *ssa.Select, idx int) func(kit.Atom) bool {
	return func(a kit.Atom) bool {
		if a.L == nil || a.L.Kind != "extract" || a.L.Idx != 0 || a.L.Args[0].V != ssa.Value(sel) {
			return false
		}
		z, ok := a.R.IntConst()
		return ok && a.Op == token.EQL && int(z) == idx
	}
}

// c10HasEdge reports whether fn has a conditional edge satisfying pred.
func c10HasEdge(fn *ssa.Function, pred func(kit.Atom) bool) (bool, token.Pos) {
	for _, b := range fn.Blocks {
		if len(b.Instrs) == 0 {
			continue
		}
		ifi, ok := b.Instrs[len(b.Instrs)-1].(*ssa.If)
		if !ok {
			continue
		}
		for _, tr := range []bool{true, false} {
			for _, a := range kit.EdgeAtoms(ifi.Cond, tr) {
				if pred(a) {
					p := ifi.Cond.Pos()
					if !p.IsValid() {
						p = fn.Pos()
					}
					return true, p
				}
			}
		}
	}
	return false, token.NoPos
}

// c10PeerOfDownloader returns the canonical expression of the peer a
// piece-downloader value was looked up with in t.pieceDownloaders ("" when
// the value has another origin).
func (e *c10Env) c10PeerOfDownloader(pd ssa.Value) string {
	x := kit.Canon(pd)
	if x.Kind == "extract" && x.Idx == 0 {
		x = x.Args[0]
	}
	if x.Kind == "lookup" && x.Args[0].IsField(e.fPD) {
		return x.Args[1].Strip().String()
	}
	return ""
}

package rules

import (
	"go/types"
	"strings"

	"rainverif/checker/kit"
)

// Configuration wiring (second seeding round: a constructor call received
// config.MaxRequestsOut where MaxRequestsIn belongs, another one
// DHTMinAnnounceInterval instead of TrackerMinAnnounceInterval; both settings
// have equal defaults, so nothing shows until a user sets one of them).
//
// A limit holds "for every configuration" only if the field that enforces it is
// fed from the configuration value of that name. Each row names the enforcing
// struct field (resolved from the program, confirmed by reading) and the set of
// origins it may be assigned from; origins are followed backwards through
// conversions, phis, local cells and constructor parameters to the arguments at
// every call site.

type wireRow struct {
	prop, rule            string
	pkg, typ, field       string
	allowed               [][3]string // {pkg, type, field}
	allowConstZero, floor bool
	why                   string
}

var wireTable = []wireRow{
	{prop: "C17", rule: "R17.7", pkg: "internal/peerconn/peerwriter", typ: "PeerWriter", field: "maxQueuedRequests",
		allowed: [][3]string{{"torrent", "Config", "MaxRequestsIn"}},
		why:     "the per-peer cap on queued upload requests"},
	{prop: "C15", rule: "R15.6", pkg: "internal/announcer", typ: "PeriodicalAnnouncer", field: "minInterval",
		allowed: [][3]string{{"torrent", "Config", "TrackerMinAnnounceInterval"}, {"internal/tracker", "AnnounceResponse", "MinInterval"}},
		why:     "the lower bound of the interval between announces to a tracker"},
	{prop: "C15", rule: "R15.6", pkg: "internal/announcer", typ: "PeriodicalAnnouncer", field: "numWant",
		allowed: [][3]string{{"torrent", "Config", "TrackerNumWant"}},
		why:     "the number of peers asked from a tracker"},
}

func init() {
	byProp := map[string][]wireRow{}
	for _, r := range wireTable {
		byProp[r.prop] = append(byProp[r.prop], r)
	}
	for p, rows := range byProp {
		rows := rows
		registerExtra(p, func(c *kit.Ctx) { runWiring(c, rows) })
	}
}

func runWiring(c *kit.Ctx, rows []wireRow) {
	k := newKeyer()
	for _, r := range rows {
		owner := c.Field(r.pkg, r.typ, r.field)
		var allowed []*types.Var
		var names []string
		for _, a := range r.allowed {
			allowed = append(allowed, c.Field(a[0], a[1], a[2]))
			names = append(names, a[1]+"."+a[2])
		}
		n := 0
		for _, st := range fieldStores(c, owner) {
			n++
			ok := true
			var got []string
			for _, o := range origins(c, st.Val, false, 6, nil) {
				got = append(got, o.String())
				match := false
				if o.Kind == "field" {
					for _, a := range allowed {
						if o.Field == a {
							match = true
						}
					}
				}
				if !match {
					ok = false
				}
			}
			what := r.typ + "." + r.field
			c.Check(ok && len(got) > 0, r.rule, k.key(st.Fn, "wire "+what), posOf(st.Store),
				what+" ("+r.why+") is fed from "+strings.Join(names, " / "),
				what+" ("+r.why+") does not originate from "+strings.Join(names, " / ")+" (origins: "+strings.Join(got, ", ")+"): the configured value is not the one enforced")
		}
		c.Floor(r.rule, r.typ+"."+r.field+" stores", n, 1)
	}
}

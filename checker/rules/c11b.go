package rules

import (
	"fmt"
	"go/constant"
	"go/token"
	"go/types"
	"reflect"
	"sort"
	"strings"

	"golang.org/x/tools/go/ssa"

	"rainverif/checker/kit"
)

// ---- R11.3 framing shape -----------------------------------------------------

func c11IsBufMethod(cc *ssa.CallCommon, buf ssa.Value, name string) bool {
	return c11IsStatic(cc, "bytes", "Buffer", name) && len(cc.Args) > 0 && cc.Args[0] == buf
}

// c11BytesOf returns B for a value `(*bytes.Buffer).Bytes(B)`.
func c11BytesOf(v ssa.Value) ssa.Value {
	call, ok := v.(*ssa.Call)
	if !ok || !c11IsStatic(&call.Call, "bytes", "Buffer", "Bytes") {
		return nil
	}
	return call.Call.Args[0]
}

// c11ZeroArray: v is a slice of a fresh [n]byte array all of whose element
// stores are the constant 0; returns n.
func c11ZeroArray(v ssa.Value) (int64, bool) {
	sl, ok := v.(*ssa.Slice)
	if !ok || sl.Low != nil || sl.High != nil {
		return 0, false
	}
	a, ok := sl.X.(*ssa.Alloc)
	if !ok {
		return 0, false
	}
	arr, ok := c11ElemType(a).Underlying().(*types.Array)
	if !ok {
		return 0, false
	}
	for _, r := range *a.Referrers() {
		switch x := r.(type) {
		case *ssa.IndexAddr:
			for _, r2 := range *x.Referrers() {
				st, ok := r2.(*ssa.Store)
				if !ok || st.Addr != ssa.Value(x) {
					return 0, false
				}
				if v, ok := c11ConstInt(st.Val); !ok || v != 0 {
					return 0, false
				}
			}
		case *ssa.Slice, *ssa.DebugRef:
		default:
			return 0, false
		}
	}
	return arr.Len(), true
}

func c11Framing(c *kit.Ctx, k *keyer, env *c11Env) {
	fConn := c.Field(c11PW, "PeerWriter", "conn")
	isConnWrite := func(ins ssa.Instruction) *ssa.Call {
		call, ok := ins.(*ssa.Call)
		if !ok || !call.Call.IsInvoke() || call.Call.Method.Name() != "Write" || !kit.Canon(call.Call.Value).IsField(fConn) {
			return nil
		}
		return call
	}
	// every write on the peer connection in the package - wherever it is - is
	// either the framed message write or the 4-zero-byte keep-alive
	nFramed, nKeep := 0, 0
	for _, fn := range c.ModuleFunctions() {
		if !inPkg(fn, c, c11PW) {
			continue
		}
		fn := fn
		kit.Instrs(fn, func(ins ssa.Instruction) {
			w := isConnWrite(ins)
			if w == nil {
				return
			}
			arg := w.Call.Args[0]
			if n, ok := c11ZeroArray(arg); ok {
				nKeep++
				c.Check(n == 4, "R11.3", k.key(fn, "keep-alive"), posOf(w), "keep-alive is four zero bytes (length prefix 0, BEP 3)",
					fmt.Sprintf("keep-alive writes %d zero bytes, BEP 3 prescribes a 4-byte zero length prefix", n))
				return
			}
			key := k.key(fn, "framed write")
			fr, why := c11ResolveFrame(c, w)
			if fr == nil {
				c.Bad("R11.3", key, posOf(w), "conn.Write(%s): neither the frame buffer (buf.Bytes() of a bytes.NewBuffer, built here or by a same-package encoder) nor a zero keep-alive: bytes that bypass the framing%s", kit.Canon(arg), why)
				return
			}
			nFramed++
			if bad := append(fr.callerBad, c11CheckFrame(c, fr, env)...); len(bad) > 0 {
				c.Bad("R11.3", key, posOf(w), "%s", strings.Join(bad, "; "))
			} else {
				c.OK("R11.3", key, posOf(w), "empty buffer, 5 bytes reserved before serialisation, [0:4] = BigEndian uint32(1 + n of WriteTo/ReadFrom of this message), [4] = msg.ID(), the same buffer is written")
			}
		})
	}
	c.Floor("R11.3", "framed conn.Write in package peerwriter", nFramed, 1)
	c.Floor("R11.3", "keep-alive conn.Write in package peerwriter", nKeep, 1)

	// reader side of the framing: 4-byte big-endian length, 1-byte id, the
	// id byte is subtracted exactly once
	rd := env.rd
	{
		key := kit.FuncName(rd.run) + "/frame header"
		var bad []string
		if !c11IsBigEndian(rd.lenRead.Call.Args[1]) {
			bad = append(bad, "frame length not read in binary.BigEndian order")
		}
		if !kit.Dominates(rd.lenRead, rd.idRead) {
			bad = append(bad, "message id read before the frame length")
		}
		for _, st := range rd.oddStores {
			bad = append(bad, fmt.Sprintf("frame length overwritten at %s by %s", c.Pos(posOf(st)), kit.Canon(st.Val)))
		}
		var dec1 *c11Dec
		for _, d := range rd.decs {
			if !d.notDone.Before(d.st) {
				bad = append(bad, fmt.Sprintf("`length -= %d` at %s can execute twice for one frame", d.c, c.Pos(posOf(d.st))))
			}
			if len(rd.facts.At(d.st)) == 0 {
				if dec1 != nil {
					bad = append(bad, "the frame length is decremented more than once outside the id arms")
				}
				dec1 = d
			}
		}
		if dec1 == nil {
			// maybe expressed on registers: checked per consumer by lenOff
		} else if dec1.c != 1 {
			bad = append(bad, fmt.Sprintf("after reading the 1-byte id the frame length is reduced by %d, must be 1", dec1.c))
		} else if !kit.Dominates(rd.idRead, dec1.st) {
			bad = append(bad, "`length--` is not tied to reading the id byte")
		}
		// a zero length is a keep-alive: no id byte follows
		zero := c.AtomFlow(rd.run, func(a kit.Atom) bool {
			z, ok := a.R.Strip().IntConst()
			l := a.L.Strip()
			return a.Op == token.NEQ && ok && z == 0 && l.Kind == "deref" && l.Args[0].V == ssa.Value(rd.lenAlloc)
		}, func(ins ssa.Instruction) bool { return storesInto(ins, rd.lenAlloc) })
		if !zero.Before(rd.idRead) {
			bad = append(bad, "the id byte is read without `length != 0`: a keep-alive (length 0) has no id byte")
		}
		if len(bad) > 0 {
			c.Bad("R11.3", key, posOf(rd.lenRead), "%s", strings.Join(bad, "; "))
		} else {
			c.OK("R11.3", key, posOf(rd.lenRead), "reader: uint32 BigEndian length, keep-alive on 0, then 1-byte id, payload length = length - 1 exactly once")
		}
	}
}

// c11Frame is a frame buffer (a bytes.NewBuffer) together with the program
// points at which it must be complete: the conn.Write itself when the buffer
// is built in the writing function, or the returns of the same-package
// encoder that hand it out.
type c11Frame struct {
	nb        *ssa.Call         // the bytes.NewBuffer call
	w         *ssa.Call         // the conn.Write
	finals    []ssa.Instruction // in nb's function
	via       *ssa.Call         // the call of the encoder in the writing function (nil: built in place)
	callerBad []string          // complaints about what the writing function does with the returned buffer
}

// dominatesFinals: ins dominates every point at which the frame must be complete.
func (fr *c11Frame) dominatesFinals(ins ssa.Instruction) bool {
	for _, f := range fr.finals {
		if !kit.Dominates(ins, f) {
			return false
		}
	}
	return len(fr.finals) > 0
}

// msgInWriter maps the message value serialised into the frame (a value of
// nb's function) to the corresponding value of the writing function.
func (fr *c11Frame) msgInWriter(msg ssa.Value) ssa.Value {
	if fr.via == nil || msg == nil {
		return msg
	}
	p, ok := msg.(*ssa.Parameter)
	if !ok {
		return nil
	}
	for i, q := range p.Parent().Params {
		if q == p && i < len(fr.via.Call.Args) {
			return c11IfaceRoot(fr.via.Call.Args[i])
		}
	}
	return nil
}

// c11ResolveFrame finds the frame buffer whose bytes conn.Write w sends.
func c11ResolveFrame(c *kit.Ctx, w *ssa.Call) (*c11Frame, string) {
	b := c11BytesOf(w.Call.Args[0])
	if b == nil {
		return nil, ""
	}
	if nb, ok := b.(*ssa.Call); ok && c11IsStatic(&nb.Call, "bytes", "", "NewBuffer") {
		return &c11Frame{nb: nb, w: w, finals: []ssa.Instruction{w}}, ""
	}
	// result of a same-package encoder
	var call *ssa.Call
	idx := 0
	switch x := b.(type) {
	case *ssa.Extract:
		call, _ = x.Tuple.(*ssa.Call)
		idx = x.Index
	case *ssa.Call:
		if x.Call.Signature().Results().Len() == 1 {
			call = x
		}
	}
	if call == nil {
		return nil, ""
	}
	h := call.Call.StaticCallee()
	if h == nil || h.Blocks == nil || pkgOf(h) != pkgOf(w.Parent()) {
		return nil, ""
	}
	fr := &c11Frame{w: w, via: call}
	for _, r := range returnsOf(h) {
		if r.Block() == h.Recover || idx >= len(r.Results) {
			continue
		}
		for _, src := range boolSources(r.Results[idx]) {
			if k, ok := src.V.(*ssa.Const); ok && k.IsNil() {
				continue // no buffer (returned together with the serialisation error)
			}
			nb, ok := src.V.(*ssa.Call)
			if !ok || !c11IsStatic(&nb.Call, "bytes", "", "NewBuffer") || (fr.nb != nil && fr.nb != nb) {
				return nil, "; " + kit.FuncName(h) + " does not return one bytes.NewBuffer"
			}
			fr.nb = nb
			fr.finals = append(fr.finals, r)
		}
	}
	if fr.nb == nil {
		return nil, ""
	}
	// the writing function only measures and writes the returned buffer
	for _, r := range *b.Referrers() {
		switch x := r.(type) {
		case *ssa.DebugRef:
		case *ssa.Call:
			switch {
			case c11IsBufMethod(&x.Call, b, "Len"):
			case c11IsBufMethod(&x.Call, b, "Bytes"):
				for _, r2 := range *x.Referrers() {
					if _, dbg := r2.(*ssa.DebugRef); !dbg && r2 != ssa.Instruction(w) {
						fr.callerBad = append(fr.callerBad, fmt.Sprintf("bytes of the encoded frame also used by %s", r2))
					}
				}
			default:
				fr.callerBad = append(fr.callerBad, fmt.Sprintf("encoded frame buffer passed to %s before it is written", kit.Canon(x)))
			}
		default:
			fr.callerBad = append(fr.callerBad, fmt.Sprintf("encoded frame buffer used by %s before it is written", r))
		}
	}
	return fr, ""
}

func c11CheckFrame(c *kit.Ctx, fr *c11Frame, env *c11Env) (bad []string) {
	nb, w := fr.nb, fr.w
	buf := ssa.Value(nb)
	// 1. empty initial content
	// (a parameter of a helper stands for the argument at each of its call sites)
	for _, iv := range c11ArgValues(c, nb.Call.Args[0], 2) {
		if e := kit.Canon(iv); !(e.IsNil() || (e.Kind == "slice" && len(e.Args) >= 3 && e.Args[2] != nil && func() bool { z, ok := e.Args[2].IntConst(); return ok && z == 0 }())) {
			bad = append(bad, fmt.Sprintf("frame buffer starts with content %s: header bytes would not be at [0:5]", e))
		}
	}
	// 2. classify uses of the buffer
	var reserve []*ssa.Call
	type ser struct {
		call *ssa.Call
		msg  ssa.Value
	}
	var sers []ser
	var puts []*ssa.Call
	var idStores []*ssa.Store
	for _, r := range *buf.Referrers() {
		switch x := r.(type) {
		case *ssa.Call:
			_, _, name := c11Static(&x.Call)
			switch {
			case c11IsBufMethod(&x.Call, buf, "Write"):
				reserve = append(reserve, x)
			case c11IsBufMethod(&x.Call, buf, "ReadFrom"):
				sers = append(sers, ser{x, c11IfaceRoot(x.Call.Args[1])})
			case c11IsBufMethod(&x.Call, buf, "Bytes"):
				for _, r2 := range *x.Referrers() {
					switch y := r2.(type) {
					case *ssa.Slice:
						for _, r3 := range *y.Referrers() {
							if pc, ok := r3.(*ssa.Call); ok {
								if p, _, n := c11Static(&pc.Call); p == "encoding/binary" && strings.HasPrefix(n, "PutUint") {
									puts = append(puts, pc)
									continue
								}
							}
							bad = append(bad, fmt.Sprintf("frame bytes also used by %s", r3))
						}
					case *ssa.IndexAddr:
						for _, r3 := range *y.Referrers() {
							if st, ok := r3.(*ssa.Store); ok && st.Addr == ssa.Value(y) {
								idx, ok := c11ConstInt(y.Index)
								if !ok || idx != 4 {
									bad = append(bad, fmt.Sprintf("frame byte [%s] overwritten: only [4] (the id) is patched", kit.Canon(y.Index)))
								}
								idStores = append(idStores, st)
							}
						}
					case *ssa.Call:
						if y != w && c11IsConnWrite(y) == false {
							bad = append(bad, fmt.Sprintf("frame bytes passed to %s", kit.Canon(y)))
						}
					case *ssa.DebugRef:
					default:
						bad = append(bad, fmt.Sprintf("frame bytes used by %s", r2))
					}
				}
			case c11IsBufMethod(&x.Call, buf, "Len"):
			default:
				bad = append(bad, fmt.Sprintf("frame buffer mutated by %s", name))
			}
		case *ssa.MakeInterface:
			for _, r2 := range *x.Referrers() {
				call, ok := r2.(*ssa.Call)
				if ok && call.Call.IsInvoke() && call.Call.Method.Name() == "WriteTo" {
					sers = append(sers, ser{call, c11IfaceRoot(call.Call.Value)})
				} else if _, isDbg := r2.(*ssa.DebugRef); !isDbg {
					bad = append(bad, fmt.Sprintf("frame buffer handed to %s", r2))
				}
			}
		case *ssa.DebugRef:
		case *ssa.Return:
			// handed out by the encoder: one of the points at which the frame must be complete
			isFinal := false
			for _, f := range fr.finals {
				if f == ssa.Instruction(x) {
					isFinal = true
				}
			}
			if !isFinal {
				bad = append(bad, fmt.Sprintf("frame buffer returned by %s", kit.FuncName(x.Parent())))
			}
		default:
			bad = append(bad, fmt.Sprintf("frame buffer used by %s", r))
		}
	}
	idWidth := int64(1)
	if len(reserve) != 1 {
		bad = append(bad, fmt.Sprintf("%d buf.Write calls: expected exactly one reserving the 4+1 header bytes", len(reserve)))
	} else {
		sl, _ := reserve[0].Call.Args[1].(*ssa.Slice)
		n := int64(-1)
		if sl != nil {
			if a, ok := sl.X.(*ssa.Alloc); ok && sl.Low == nil && sl.High == nil {
				if arr, ok := c11ElemType(a).Underlying().(*types.Array); ok {
					n = arr.Len()
				}
			}
		}
		if n != 4+idWidth {
			bad = append(bad, fmt.Sprintf("%d bytes reserved for the header, must be 4 (length) + 1 (id)", n))
		}
	}
	if len(sers) == 0 {
		bad = append(bad, "no WriteTo/ReadFrom serialises a message into the frame buffer")
		return
	}
	msg := sers[0].msg
	for _, s := range sers {
		if s.msg != msg || msg == nil {
			bad = append(bad, "WriteTo and ReadFrom serialise different message values")
		}
		if len(reserve) == 1 && !kit.Dominates(reserve[0], s.call) {
			bad = append(bad, "message serialised before the header bytes are reserved")
		}
	}
	// 4. length prefix
	if len(puts) != 1 {
		bad = append(bad, fmt.Sprintf("%d PutUintN into the frame bytes, expected one PutUint32 at [0:4]", len(puts)))
	} else {
		p := puts[0]
		_, rt, name := c11Static(&p.Call)
		sl := p.Call.Args[1].(*ssa.Slice)
		lo, hi := int64(0), int64(-1)
		if sl.Low != nil {
			lo, _ = c11ConstInt(sl.Low)
		}
		if sl.High != nil {
			hi, _ = c11ConstInt(sl.High)
		}
		if name != "PutUint32" || rt != "bigEndian" || !c11IsBigEndian(p.Call.Args[0]) || lo != 0 || hi != 4 {
			bad = append(bad, fmt.Sprintf("length prefix written by %s.%s into [%d:%d], must be BigEndian.PutUint32 into [0:4]", rt, name, lo, hi))
		}
		v := p.Call.Args[2]
		if cv, ok := v.(*ssa.Convert); ok {
			if b, ok := cv.Type().Underlying().(*types.Basic); !ok || b.Kind() != types.Uint32 {
				bad = append(bad, "length prefix not converted to uint32")
			}
			v = cv.X
		}
		sum, ok := v.(*ssa.BinOp)
		var mv ssa.Value
		if ok && sum.Op == token.ADD {
			if one, ok := c11ConstInt(sum.X); ok && one == 1 {
				mv = sum.Y
			} else if one, ok := c11ConstInt(sum.Y); ok && one == 1 {
				mv = sum.X
			}
		}
		if mv == nil {
			bad = append(bad, fmt.Sprintf("length prefix is %s, must be uint32(1 + m): id byte plus serialised bytes", kit.Canon(p.Call.Args[2])))
		} else {
			covered := map[*ssa.Call]bool{}
			for _, s := range boolSources(c11StripConv(mv)) {
				ex, ok := c11StripConv(s.V).(*ssa.Extract)
				okSrc := false
				if ok && ex.Index == 0 {
					for _, sr := range sers {
						if ex.Tuple == ssa.Value(sr.call) {
							covered[sr.call] = true
							okSrc = true
						}
					}
				}
				if !okSrc {
					bad = append(bad, fmt.Sprintf("m may be %s which is not the count returned by the WriteTo/ReadFrom of this message", kit.Canon(s.V)))
				}
			}
			for _, sr := range sers {
				if !covered[sr.call] {
					bad = append(bad, fmt.Sprintf("the count returned by %s does not reach the length prefix", kit.Canon(sr.call)))
				}
			}
		}
		if !fr.dominatesFinals(p) {
			bad = append(bad, "conn.Write not dominated by the length patch")
		}
	}
	// 5. id byte
	if len(idStores) != 1 {
		bad = append(bad, fmt.Sprintf("%d stores into frame byte [4], expected exactly one (msg.ID())", len(idStores)))
	} else {
		st := idStores[0]
		call, ok := c11StripConv(st.Val).(*ssa.Call)
		if !ok || !call.Call.IsInvoke() || call.Call.Method.Name() != "ID" || c11IfaceRoot(call.Call.Value) != msg {
			bad = append(bad, fmt.Sprintf("frame byte [4] = %s, must be ID() of the message that was serialised", kit.Canon(st.Val)))
		}
		if !fr.dominatesFinals(st) {
			bad = append(bad, "conn.Write not dominated by the id patch")
		}
	}
	return bad
}

func c11IsConnWrite(call *ssa.Call) bool {
	return call.Call.IsInvoke() && call.Call.Method.Name() == "Write"
}

// c11IfaceRoot looks through interface conversions and comma-ok type
// assertions to the interface value they were derived from.
func c11IfaceRoot(v ssa.Value) ssa.Value {
	for {
		switch x := v.(type) {
		case *ssa.ChangeInterface:
			v = x.X
		case *ssa.Extract:
			ta, ok := x.Tuple.(*ssa.TypeAssert)
			if !ok || x.Index != 0 {
				return v
			}
			if _, isIface := ta.AssertedType.Underlying().(*types.Interface); !isIface {
				return v
			}
			v = ta.X
		case *ssa.TypeAssert:
			if _, isIface := x.AssertedType.Underlying().(*types.Interface); !isIface {
				return v
			}
			v = x.X
		default:
			return v
		}
	}
}

// ---- R11.6 upload counter ------------------------------------------------------

func c11UploadCounter(c *kit.Ctx, k *keyer, env *c11Env) {
	cub := c.FuncObj(c11PW, "(*PeerWriter).countUploadBytes")
	cubFn := c.Func(c11PW, "(*PeerWriter).countUploadBytes")
	tPiece := c11Named(c, c11PW+".Piece")
	fConn := c.Field(c11PW, "PeerWriter", "conn")
	n := 0
	for _, s := range sortSites(c.CallSites(cub)) {
		n++
		key := k.key(s.Fn, "countUploadBytes")
		// wherever the call is, it is tied to the framed conn.Write of the
		// same function: its argument is that write's n
		arg := argOf(s.Instr.Common(), 1)
		ex, _ := arg.(*ssa.Extract)
		var w *ssa.Call
		if ex != nil && ex.Index == 0 {
			w, _ = ex.Tuple.(*ssa.Call)
		}
		if w == nil || !c11IsConnWrite(w) || !kit.Canon(w.Call.Value).IsField(fConn) {
			c.Bad("R11.6", key, posOf(s.Instr), "countUploadBytes(%s): the argument is not the n returned by p.conn.Write", kit.Canon(arg))
			continue
		}
		var msg ssa.Value
		if fr, _ := c11ResolveFrame(c, w); fr != nil {
			for _, r := range *fr.nb.Referrers() {
				if call, ok := r.(*ssa.Call); ok && c11IsBufMethod(&call.Call, fr.nb, "ReadFrom") {
					msg = fr.msgInWriter(c11IfaceRoot(call.Call.Args[1]))
				}
			}
		}
		if msg == nil {
			c.Bad("R11.6", key, posOf(s.Instr), "the conn.Write counted is not the framed message write")
			continue
		}
		isPiece := c.AtomFlow(s.Fn, func(a kit.Atom) bool {
			return a.IsTrue(func(e *kit.Expr) bool {
				if e.Kind != "extract" || e.Idx != 1 || e.Args[0].Kind != "typeassert" {
					return false
				}
				ta, ok := e.Args[0].V.(*ssa.TypeAssert)
				return ok && derefNamed(ta.AssertedType) == tPiece && ta.AssertedType == types.Type(tPiece) && c11IfaceRoot(ta.X) == msg
			})
		}, nil)
		c.Check(isPiece.Before(s.Instr), "R11.6", key, posOf(s.Instr),
			"countUploadBytes(n of the framed conn.Write) only under msg.(Piece) of the message written",
			"countUploadBytes is reached without `msg.(Piece)` holding for the message written: header/control bytes would be reported as uploaded payload")
	}
	c.Floor("R11.6", "call sites of countUploadBytes", n, 1)
	for _, s := range c.FuncRefs(cub) {
		c.Bad("R11.6", k.key(s.Fn, "ref countUploadBytes"), s.Fn.Pos(), "countUploadBytes taken as a value: call sites cannot be enumerated")
	}
	// header constant
	hdr := 0
	if l, ok := env.wlayout[tPiece]; ok {
		hdr = c11LayoutWidth(l)
	}
	want := int64(4 + 1 + hdr)
	np := cubFn.Params[1]
	var subs []*ssa.BinOp
	kit.Instrs(cubFn, func(ins ssa.Instruction) {
		if b, ok := ins.(*ssa.BinOp); ok && b.Op == token.SUB && b.X == ssa.Value(np) {
			subs = append(subs, b)
		}
	})
	key := kit.FuncName(cubFn) + "/header"
	if len(subs) != 1 {
		c.Bad("R11.6", key, cubFn.Pos(), "countUploadBytes does not compute n - <header> exactly once (%d subtractions from n)", len(subs))
	} else {
		kv, ok := c11ConstInt(subs[0].Y)
		c.Check(ok && kv == want && hdr == 8, "R11.6", key, posOf(subs[0]),
			fmt.Sprintf("header constant %d == 4 (length) + 1 (id) + %d (piece header written by peerwriter.Piece.Read)", kv, hdr),
			fmt.Sprintf("countUploadBytes subtracts %s but a piece frame carries 4 (length) + 1 (id) + %d (index, begin) = %d non-payload bytes", kit.Canon(subs[0].Y), hdr, want))
		// the reported length derives from n - header only
		fLen := c.Field(c11PW, "BlockUploaded", "Length")
		nSt := 0
		for _, st := range fieldStores(c, fLen) {
			if st.Fn != cubFn {
				continue
			}
			nSt++
			okAll := true
			for _, src := range boolSources(c11StripConv(st.Val)) {
				v := c11StripConv(src.V)
				if v == ssa.Value(subs[0]) {
					continue
				}
				if z, ok := c11ConstInt(v); ok && z == 0 {
					continue
				}
				okAll = false
			}
			c.Check(okAll, "R11.6", k.key(cubFn, "BlockUploaded.Length"), posOf(st.Store),
				"BlockUploaded.Length = max(n - header, 0)", fmt.Sprintf("BlockUploaded.Length = %s is not n - header (clamped at 0)", kit.Canon(st.Val)))
		}
		c.Floor("R11.6", "stores to BlockUploaded.Length in countUploadBytes", nSt, 1)
	}
}

// ---- R11.4 handshake ------------------------------------------------------------

var c11RefHandshake = []c11RefField{{"Pstr", 20}, {"Extensions", 8}, {"InfoHash", 20}, {"PeerID", 20}}

const c11RefPstr = "\x13BitTorrent protocol"

func c11Handshake(c *kit.Ctx, k *keyer) {
	const pkg = "internal/btconn"
	wh := c.Func(pkg, "writeHandshake")
	rh1 := c.Func(pkg, "readHandshake1")
	rh2 := c.Func(pkg, "readHandshake2")
	gPstr := c.Global(pkg, "pstr")
	binWrite := c.FuncObj("encoding/binary", "Write")
	readFull := c.FuncObj("io", "ReadFull")
	isPstrLoad := func(v ssa.Value) bool {
		e := kit.Canon(v)
		return e.Kind == "deref" && e.Args[0].Kind == "global" && e.Args[0].Obj == types.Object(gPstr)
	}

	// writer
	var wWidths []int
	{
		key := kit.FuncName(wh) + "/layout"
		var bad []string
		var bw *ssa.Call
		kit.Instrs(wh, func(ins ssa.Instruction) {
			if call, ok := ins.(*ssa.Call); ok && kit.CalleeObj(&call.Call) == binWrite {
				if bw != nil {
					bad = append(bad, "more than one binary.Write")
				}
				bw = call
			}
		})
		if bw == nil {
			c.Bad("R11.4", key, wh.Pos(), "writeHandshake does not binary.Write a handshake struct")
		} else {
			if !c11IsBigEndian(bw.Call.Args[1]) {
				bad = append(bad, "not binary.BigEndian")
			}
			var st *ssa.Alloc
			if mi, ok := bw.Call.Args[2].(*ssa.MakeInterface); ok {
				st = c11LoadOf(mi.X)
			}
			if st == nil {
				bad = append(bad, "the value written is not a local handshake struct")
			} else {
				fl, ok := c11Flatten(c11ElemType(st), "")
				if !ok || !c11SameLayout(fl, c11RefHandshake) {
					bad = append(bad, fmt.Sprintf("handshake struct lays out %s, BEP 3 prescribes %s", c11LayoutString(fl), c11LayoutString(c11RefHandshake)))
				}
				for _, f := range fl {
					wWidths = append(wWidths, f.Width)
				}
				// sources of the fields
				wantSrc := map[string]int{"Extensions": 3, "InfoHash": 1, "PeerID": 2}
				stored := map[string]int{}
				kit.Instrs(wh, func(ins ssa.Instruction) {
					s, ok := ins.(*ssa.Store)
					if !ok {
						return
					}
					fa, ok := s.Addr.(*ssa.FieldAddr)
					if !ok || fa.X != ssa.Value(st) {
						return
					}
					name := c11ElemType(st).Underlying().(*types.Struct).Field(fa.Field).Name()
					stored[name]++
					if name == "Pstr" {
						if !isPstrLoad(s.Val) {
							bad = append(bad, fmt.Sprintf("Pstr = %s, not the protocol string", kit.Canon(s.Val)))
						}
						return
					}
					if idx, ok := wantSrc[name]; ok {
						if idx >= len(wh.Params) || s.Val != ssa.Value(wh.Params[idx]) {
							bad = append(bad, fmt.Sprintf("%s = %s, must be parameter #%d of writeHandshake(w, infoHash, peerID, extensions)", name, kit.Canon(s.Val), idx))
						}
					}
				})
				for _, f := range c11RefHandshake {
					if stored[f.Name] != 1 {
						bad = append(bad, fmt.Sprintf("field %s stored %d times", f.Name, stored[f.Name]))
					}
				}
			}
			if len(bad) > 0 {
				c.Bad("R11.4", key, posOf(bw), "%s", strings.Join(bad, "; "))
			} else {
				c.OK("R11.4", key, posOf(bw), "binary.Write(BigEndian, {Pstr[20]=pstr, Extensions[8]=extensions, InfoHash[20]=ih, PeerID[20]=id}) == BEP 3 handshake layout")
			}
		}
	}

	// readers
	type rdRead struct {
		call  *ssa.Call
		alloc *ssa.Alloc
		width int
	}
	reads := func(fn *ssa.Function) (out []rdRead, bad []string) {
		kit.Instrs(fn, func(ins ssa.Instruction) {
			call, ok := ins.(*ssa.Call)
			if !ok || kit.CalleeObj(&call.Call) != readFull {
				return
			}
			r := rdRead{call: call, width: -1}
			if sl, ok := call.Call.Args[1].(*ssa.Slice); ok && sl.Low == nil && sl.High == nil {
				if a, ok := sl.X.(*ssa.Alloc); ok {
					if arr, ok := c11ElemType(a).Underlying().(*types.Array); ok {
						r.alloc, r.width = a, int(arr.Len())
					}
				}
			}
			if r.alloc == nil {
				bad = append(bad, fmt.Sprintf("io.ReadFull into %s: width not a fixed array", kit.Canon(call.Call.Args[1])))
			}
			if call.Call.Args[0] != ssa.Value(fn.Params[0]) {
				bad = append(bad, "io.ReadFull not from the connection parameter")
			}
			out = append(out, r)
		})
		sort.SliceStable(out, func(i, j int) bool { return kit.Dominates(out[i].call, out[j].call) })
		for i := 1; i < len(out); i++ {
			if !kit.Dominates(out[i-1].call, out[i].call) {
				bad = append(bad, "the io.ReadFull calls are not a straight sequence")
			}
		}
		return
	}
	retIndex := func(fn *ssa.Function, a *ssa.Alloc) int {
		idx := -1
		for _, r := range returnsOf(fn) {
			for i, v := range r.Results {
				if c11LoadOf(v) == a {
					if idx >= 0 && idx != i {
						return -2
					}
					idx = i
				}
			}
		}
		return idx
	}
	var rWidths []int
	{
		key := kit.FuncName(rh1) + "/layout"
		rs, bad := reads(rh1)
		for _, r := range rs {
			rWidths = append(rWidths, r.width)
		}
		if len(rs) != 3 {
			bad = append(bad, fmt.Sprintf("%d io.ReadFull calls, expected pstr, reserved, info hash", len(rs)))
		} else {
			// pstr verified before the reserved bytes are read
			a0 := rs[0].alloc
			verified := c.AtomFlow(rh1, func(a kit.Atom) bool {
				if a.Op != token.EQL {
					return false
				}
				l, r := a.L, a.R
				isA0 := func(e *kit.Expr) bool { return e.Kind == "deref" && a0 != nil && e.Args[0].V == ssa.Value(a0) }
				return (isA0(l) && isPstrLoad(r.V)) || (isA0(r) && isPstrLoad(l.V))
			}, func(ins ssa.Instruction) bool {
				if call, ok := ins.(*ssa.Call); ok {
					for _, arg := range call.Call.Args {
						if sl, ok := arg.(*ssa.Slice); ok && sl.X == ssa.Value(a0) {
							return true
						}
					}
				}
				return storesInto(ins, a0)
			})
			if a0 == nil || !verified.Before(rs[1].call) {
				bad = append(bad, "the first 20 bytes are not compared with pstr before the handshake continues")
			}
			if rs[1].alloc != nil && retIndex(rh1, rs[1].alloc) != 0 {
				bad = append(bad, "the 8 reserved bytes are not returned as result #0 (extensions)")
			}
			if rs[2].alloc != nil && retIndex(rh1, rs[2].alloc) != 1 {
				bad = append(bad, "the info hash bytes are not returned as result #1")
			}
		}
		rs2, bad2 := reads(rh2)
		bad = append(bad, bad2...)
		for _, r := range rs2 {
			rWidths = append(rWidths, r.width)
		}
		if len(rs2) != 1 {
			bad = append(bad, fmt.Sprintf("readHandshake2 has %d io.ReadFull calls, expected the peer id", len(rs2)))
		} else if rs2[0].alloc != nil && retIndex(rh2, rs2[0].alloc) != 0 {
			bad = append(bad, "the peer id bytes are not returned as result #0 of readHandshake2")
		}
		var want []int
		for _, f := range c11RefHandshake {
			want = append(want, f.Width)
		}
		if fmt.Sprint(rWidths) != fmt.Sprint(want) {
			bad = append(bad, fmt.Sprintf("reader consumes widths %v, BEP 3 prescribes %v", rWidths, want))
		}
		if fmt.Sprint(rWidths) != fmt.Sprint(wWidths) {
			bad = append(bad, fmt.Sprintf("reader consumes widths %v, writeHandshake emits %v", rWidths, wWidths))
		}
		if len(bad) > 0 {
			c.Bad("R11.4", key, rh1.Pos(), "%s", strings.Join(bad, "; "))
		} else {
			c.OK("R11.4", key, rh1.Pos(), "readHandshake1+2 consume 20 (== pstr, verified), 8 (extensions), 20 (info hash), 20 (peer id) == writeHandshake == BEP 3")
		}
		c.Floor("R11.4", "io.ReadFull calls of the handshake readers", len(rWidths), 4)
	}

	// pstr value and immutability
	{
		key := "var/btconn.pstr"
		val := make([]int64, 0, 20)
		var bad []string
		nInit := 0
		// package initialiser (synthetic, not part of ModuleFunctions) plus
		// every source function of the package
		scan := []*ssa.Function{}
		initFn := c.Pkg(pkg).Func("init")
		if initFn == nil {
			c11Fail("package initialiser of %s", pkg)
		}
		scan = append(scan, initFn)
		for _, fn := range c.ModuleFunctions() {
			if inPkg(fn, c, pkg) && fn != initFn {
				scan = append(scan, fn)
			}
		}
		for _, fn := range scan {
			kit.Instrs(fn, func(ins ssa.Instruction) {
				for _, op := range ins.Operands(nil) {
					g, ok := (*op).(*ssa.Global)
					if !ok || g.Object() != types.Object(gPstr) {
						continue
					}
					if u, ok := ins.(*ssa.UnOp); ok && u.Op == token.MUL {
						continue // load
					}
					st, ok := ins.(*ssa.Store)
					if ok && st.Addr == ssa.Value(g) && fn == initFn {
						nInit++
						a := c11LoadOf(st.Val)
						if a == nil {
							bad = append(bad, "pstr not initialised from an array literal")
							continue
						}
						arr, _ := c11ElemType(a).Underlying().(*types.Array)
						if arr == nil {
							bad = append(bad, "pstr is not an array")
							continue
						}
						val = make([]int64, arr.Len())
						for _, r := range *a.Referrers() {
							ia, ok := r.(*ssa.IndexAddr)
							if !ok {
								continue
							}
							idx, ok := c11ConstInt(ia.Index)
							for _, r2 := range *ia.Referrers() {
								if s2, isSt := r2.(*ssa.Store); isSt && s2.Addr == ssa.Value(ia) {
									b, okb := c11ConstInt(s2.Val)
									if !ok || !okb || idx < 0 || idx >= int64(len(val)) {
										bad = append(bad, "pstr element is not a constant")
									} else {
										val[idx] = b
									}
								}
							}
						}
						continue
					}
					bad = append(bad, fmt.Sprintf("pstr is written or its address escapes at %s (%s)", c.Pos(posOf(ins)), kit.FuncName(fn)))
				}
			})
		}
		var sb strings.Builder
		for _, b := range val {
			sb.WriteByte(byte(b))
		}
		if nInit != 1 {
			bad = append(bad, fmt.Sprintf("pstr initialised %d times", nInit))
		}
		if sb.String() != c11RefPstr {
			bad = append(bad, fmt.Sprintf("pstr = %q, BEP 3 prescribes %q", sb.String(), c11RefPstr))
		}
		if len(bad) > 0 {
			c.Bad("R11.4", key, gPstr.Pos(), "%s", strings.Join(bad, "; "))
		} else {
			c.OK("R11.4", key, gPstr.Pos(), "pstr == \"\\x13BitTorrent protocol\" and is never written after init")
		}
	}
}

// ---- R11.5 extension protocol ----------------------------------------------------

// reference: BEP 10 handshake id 0 and dictionary keys, BEP 9 ut_metadata,
// BEP 11 ut_pex.
var c11RefExtKey = map[string]string{
	"ut_metadata": "ExtensionMetadataMessage",
	"ut_pex":      "ExtensionPEXMessage",
}

var c11RefExtConst = map[string]string{
	"ExtensionKeyMetadata": "ut_metadata",
	"ExtensionKeyPEX":      "ut_pex",
}

var c11RefExtInt = map[string]int64{
	"ExtensionIDHandshake":                0,
	"ExtensionMetadataMessageTypeRequest": 0,
	"ExtensionMetadataMessageTypeData":    1,
	"ExtensionMetadataMessageTypeReject":  2,
}

var c11RefBencode = map[string][][2]string{
	"ExtensionHandshakeMessage": {{"M", "m"}, {"V", "v"}, {"YourIP", "yourip"}, {"MetadataSize", "metadata_size"}, {"RequestQueue", "reqq"}},
	"ExtensionMetadataMessage":  {{"Type", "msg_type"}, {"Piece", "piece"}, {"TotalSize", "total_size"}, {"Data", "-"}},
	"ExtensionPEXMessage":       {{"Added", "added"}, {"Dropped", "dropped"}},
}

type c11Origin struct {
	Kind string // const | peermap | unknown
	Val  int64
	Key  string
	Why  string
}

func c11Extension(c *kit.Ctx, k *keyer, env *c11Env) {
	fExtID := c.Field(c11PP, "ExtensionMessage", "ExtendedMessageID")
	fPayload := c.Field(c11PP, "ExtensionMessage", "Payload")
	fM := c.Field(c11PP, "ExtensionHandshakeMessage", "M")
	fData := c.Field(c11PP, "ExtensionMetadataMessage", "Data")
	fPeerEH := c.Field("internal/peer", "Peer", "ExtensionHandshake")
	tHS := c.Named(c11PP, "ExtensionHandshakeMessage")
	tMeta := c.Named(c11PP, "ExtensionMetadataMessage")
	um := c.Func(c11PP, "(*ExtensionMessage).UnmarshalBinary")
	wt := c.Func(c11PP, "(ExtensionMessage).WriteTo")
	neh := c.Func(c11PP, "NewExtensionHandshake")
	nehObj := c.FuncObj(c11PP, "NewExtensionHandshake")

	// constants and bencode keys against the reference
	for _, name := range c11SortedKeys(c11RefExtConst) {
		cst := c.Const(c11PP, name)
		got := ""
		if cst.Val().Kind() == constant.String {
			got = constant.StringVal(cst.Val())
		}
		c.Check(got == c11RefExtConst[name], "R11.5", "const/"+name, cst.Pos(),
			fmt.Sprintf("%s == %q", name, got), fmt.Sprintf("%s = %q, the reference key is %q", name, got, c11RefExtConst[name]))
	}
	for _, name := range c11SortedKeysInt(c11RefExtInt) {
		cst := c.Const(c11PP, name)
		got, ok := constant.Int64Val(cst.Val())
		c.Check(ok && got == c11RefExtInt[name], "R11.5", "const/"+name, cst.Pos(),
			fmt.Sprintf("%s == %d", name, got), fmt.Sprintf("%s = %s, BEP 9/10 prescribe %d", name, cst.Val().ExactString(), c11RefExtInt[name]))
	}
	for _, tn := range []string{"ExtensionHandshakeMessage", "ExtensionMetadataMessage", "ExtensionPEXMessage"} {
		n := c.Named(c11PP, tn)
		st, _ := n.Underlying().(*types.Struct)
		for _, fk := range c11RefBencode[tn] {
			key := "bencode/" + tn + "." + fk[0]
			got, found := "", false
			var pos token.Pos = n.Obj().Pos()
			for i := 0; st != nil && i < st.NumFields(); i++ {
				if st.Field(i).Name() == fk[0] {
					found = true
					pos = st.Field(i).Pos()
					got, _, _ = strings.Cut(reflect.StructTag(st.Tag(i)).Get("bencode"), ",")
				}
			}
			c.Check(found && got == fk[1], "R11.5", key, pos,
				fmt.Sprintf("%s.%s is the dictionary key %q", tn, fk[0], fk[1]),
				fmt.Sprintf("%s.%s has bencode key %q (found=%v), BEP 9/10/11 prescribe %q", tn, fk[0], got, found, fk[1]))
		}
	}

	// dispatch table D of UnmarshalBinary
	isExtID := func(e *kit.Expr) bool { return e.IsField(fExtID) }
	dfacts := c11NewIDFacts(c, um, isExtID, func(ins ssa.Instruction) bool { _, ok := kit.StoresField(ins, fExtID); return ok })
	D := map[int64]*types.Named{}
	nD := 0
	kit.Instrs(um, func(ins ssa.Instruction) {
		v, ok := kit.StoresField(ins, fPayload)
		if !ok {
			return
		}
		key := k.key(um, "set Payload")
		mi, ok := v.(*ssa.MakeInterface)
		ids := dfacts.At(ins)
		if !ok || len(ids) != 1 {
			c.Bad("R11.5", key, posOf(ins), "Payload = %s under ids %v: the dispatch table cannot be tabulated", kit.Canon(v), ids)
			return
		}
		t, _ := mi.X.Type().(*types.Named)
		if t == nil {
			c.Bad("R11.5", key, posOf(ins), "payload of extended id %d is delivered as %s: the torrent's type switch matches value types only", ids[0], mi.X.Type())
			return
		}
		nD++
		D[ids[0]] = t
		c.OK("R11.5", key, posOf(ins), "UnmarshalBinary: extended id %d -> %s", ids[0], t.Obj().Name())
	})
	c.Floor("R11.5", "UnmarshalBinary dispatch arms", nD, 3)
	c.Check(D[0] == tHS, "R11.5", "dispatch/0", um.Pos(), "extended id 0 decodes as the extension handshake (BEP 10)",
		fmt.Sprintf("extended id 0 decodes as %v, BEP 10 reserves 0 for the handshake", D[0]))
	// the id is the first payload byte, the dictionary starts at byte 1
	{
		key := kit.FuncName(um) + "/id-byte"
		data := um.Params[1]
		okSlice := false
		kit.Instrs(um, func(ins ssa.Instruction) {
			if sl, ok := ins.(*ssa.Slice); ok && sl.X == ssa.Value(data) && sl.High == nil {
				if lo, ok := c11ConstInt(sl.Low); ok && sl.Low != nil && lo == 1 {
					okSlice = true
				} else {
					okSlice = false
				}
			}
		})
		okID := false
		kit.Instrs(um, func(ins ssa.Instruction) {
			if v, ok := kit.StoresField(ins, fExtID); ok {
				a := c11LoadOf(v)
				if a != nil {
					if b, ok := c11ElemType(a).Underlying().(*types.Basic); ok && b.Kind() == types.Uint8 {
						okID = true
					}
				}
			}
		})
		c.Check(okSlice && okID, "R11.5", key, um.Pos(), "extended id = first byte (uint8), bencoded dictionary = data[1:]",
			"UnmarshalBinary does not take the extended id from one uint8 and the dictionary from data[1:]")
	}

	// advertised table A
	A := map[string]int64{}
	{
		var mm *ssa.MakeMap
		kit.Instrs(neh, func(ins ssa.Instruction) {
			if v, ok := kit.StoresField(ins, fM); ok {
				mm, _ = v.(*ssa.MakeMap)
			}
		})
		if mm == nil {
			c.Bad("R11.5", kit.FuncName(neh)+"/m", neh.Pos(), "NewExtensionHandshake does not build the m dictionary from a map literal")
		} else {
			for _, r := range *mm.Referrers() {
				mu, ok := r.(*ssa.MapUpdate)
				if !ok {
					continue
				}
				ks, ok1 := constString(kit.Canon(mu.Key))
				id, ok2 := c11ConstInt(mu.Value)
				if !ok1 || !ok2 {
					c.Bad("R11.5", k.key(neh, "m entry"), posOf(mu), "m[%s] = %s is not constant", kit.Canon(mu.Key), kit.Canon(mu.Value))
					continue
				}
				A[ks] = id
			}
		}
		used := map[int64]string{}
		for _, key := range c11SortedKeysInt(A) {
			id := A[key]
			okey := "advertise/" + key
			want := c11RefExtKey[key]
			switch {
			case want == "":
				c.Bad("R11.5", okey, neh.Pos(), "advertised extension %q is unknown to the reference table (BEP 9/11)", key)
			case id == 0:
				c.Bad("R11.5", okey, neh.Pos(), "m[%q] = 0: BEP 10 uses 0 for the handshake / 'extension disabled'", key)
			case used[id] != "":
				c.Bad("R11.5", okey, neh.Pos(), "m[%q] and m[%q] share id %d", key, used[id], id)
			case D[id] == nil || D[id].Obj().Name() != want:
				c.Bad("R11.5", okey, neh.Pos(), "we advertise m[%q] = %d, but UnmarshalBinary decodes extended id %d as %v; peers answering on %d would be misparsed (expected %s)", key, id, id, D[id], id, want)
			default:
				c.OK("R11.5", okey, neh.Pos(), "m[%q] = %d and UnmarshalBinary decodes %d as %s", key, id, id, want)
			}
			used[id] = key
		}
		c.Floor("R11.5", "entries of the advertised m dictionary", len(A), 2)
	}

	// the peer's handshake is what Peer.ExtensionHandshake holds
	for _, st := range fieldStores(c, fPeerEH) {
		key := k.key(st.Fn, "set Peer.ExtensionHandshake")
		ok := false
		if a, isA := st.Val.(*ssa.Alloc); isA {
			ok = true
			for _, r := range *a.Referrers() {
				if s2, isSt := r.(*ssa.Store); isSt && s2.Addr == ssa.Value(a) {
					ex, isEx := s2.Val.(*ssa.Extract)
					var ta *ssa.TypeAssert
					if isEx {
						ta, _ = ex.Tuple.(*ssa.TypeAssert)
					} else {
						ta, _ = s2.Val.(*ssa.TypeAssert)
					}
					if ta == nil || ta.AssertedType != types.Type(tHS) {
						ok = false
					}
				}
			}
		}
		if kit.Canon(st.Val).IsNil() {
			ok = true
		}
		c.Check(ok, "R11.5", key, posOf(st.Store), "Peer.ExtensionHandshake = the received ExtensionHandshakeMessage (type-switch binding)",
			fmt.Sprintf("Peer.ExtensionHandshake = %s is not the message received from the peer: outgoing extended ids would not be the peer's", kit.Canon(st.Val)))
	}

	// outgoing ExtensionMessage literals
	var origins func(v ssa.Value, depth int) []c11Origin
	origins = func(v ssa.Value, depth int) []c11Origin {
		v = c11StripConv(v)
		if depth > 4 {
			return []c11Origin{{Kind: "unknown", Why: "too deep"}}
		}
		if cv, ok := c11ConstInt(v); ok {
			return []c11Origin{{Kind: "const", Val: cv}}
		}
		switch x := v.(type) {
		case *ssa.Extract:
			if lk, ok := x.Tuple.(*ssa.Lookup); ok && x.Index == 0 {
				return origins(lk, depth)
			}
			if call, ok := x.Tuple.(*ssa.Call); ok {
				if fn := call.Call.StaticCallee(); fn != nil && fn.Blocks != nil && fn.Pkg != nil && kit.InModule(fn.Pkg.Pkg.Path()) {
					var out []c11Origin
					for _, r := range returnsOf(fn) {
						out = append(out, origins(r.Results[x.Index], depth+1)...)
					}
					return out
				}
			}
		case *ssa.Call:
			if fn := x.Call.StaticCallee(); fn != nil && fn.Blocks != nil && fn.Pkg != nil && kit.InModule(fn.Pkg.Pkg.Path()) && fn.Signature.Results().Len() == 1 {
				var out []c11Origin
				for _, r := range returnsOf(fn) {
					out = append(out, origins(r.Results[0], depth+1)...)
				}
				return out
			}
		case *ssa.Lookup:
			m := kit.Canon(x.X)
			ks, okk := constString(kit.Canon(x.Index))
			if m.IsField(fM) && okk && m.Mentions(func(e *kit.Expr) bool { return e.IsField(fPeerEH) }) {
				return []c11Origin{{Kind: "peermap", Key: ks}}
			}
			return []c11Origin{{Kind: "unknown", Why: fmt.Sprintf("lookup %s[%s] is not Peer.ExtensionHandshake.M[<const key>]", m, kit.Canon(x.Index))}}
		case *ssa.Phi:
			var out []c11Origin
			for _, s := range boolSources(x) {
				if _, isPhi := s.V.(*ssa.Phi); isPhi {
					continue
				}
				out = append(out, origins(s.V, depth+1)...)
			}
			return out
		case *ssa.Parameter:
			fn := x.Parent()
			idx := -1
			for i, p := range fn.Params {
				if p == x {
					idx = i
				}
			}
			obj, _ := fn.Object().(*types.Func)
			if obj == nil || idx < 0 {
				break
			}
			sites := c.CallSites(obj)
			if len(sites) == 0 || len(c.FuncRefs(obj)) > 0 {
				return []c11Origin{{Kind: "unknown", Why: "parameter of " + kit.FuncName(fn) + " with unknown callers"}}
			}
			var out []c11Origin
			for _, s := range sites {
				out = append(out, origins(argOf(s.Instr.Common(), idx), depth+1)...)
			}
			return out
		case *ssa.UnOp:
			if x.Op == token.MUL {
				if fa, ok := x.X.(*ssa.FieldAddr); ok {
					f := kit.Canon(x).Field
					if f != nil && f != fExtID {
						_ = fa
						var out []c11Origin
						sts := fieldStores(c, f)
						if len(sts) == 0 {
							return []c11Origin{{Kind: "unknown", Why: "field " + f.Name() + " is never stored"}}
						}
						for _, st := range sts {
							out = append(out, origins(st.Val, depth+1)...)
						}
						return out
					}
				}
			}
		}
		return []c11Origin{{Kind: "unknown", Why: kit.Canon(v).String()}}
	}
	nOut := 0
	for _, st := range fieldStores(c, fExtID) {
		if st.Fn == um {
			continue
		}
		nOut++
		key := k.key(st.Fn, "ExtensionMessage literal")
		fa := st.Store.Addr.(*ssa.FieldAddr)
		// payload of the same literal
		var pt types.Type
		ptr := false
		kit.Instrs(st.Fn, func(ins ssa.Instruction) {
			if v, ok := kit.StoresField(ins, fPayload); ok && ins.(*ssa.Store).Addr.(*ssa.FieldAddr).X == fa.X {
				if mi, ok := v.(*ssa.MakeInterface); ok {
					pt = mi.X.Type()
				}
			}
		})
		pn := c11DerefNamed(pt)
		if pt != nil {
			_, ptr = pt.Underlying().(*types.Pointer)
		}
		if pn == nil {
			c.Bad("R11.5", key, posOf(st.Store), "ExtensionMessage built without a tabulated Payload type")
			continue
		}
		var bad []string
		for _, o := range origins(st.Val, 0) {
			switch o.Kind {
			case "const":
				if !(o.Val == 0 && pn == tHS) {
					bad = append(bad, fmt.Sprintf("constant extended id %d with payload %s: only the handshake (id 0) has a fixed id, all others are chosen by the peer", o.Val, pn.Obj().Name()))
				}
			case "peermap":
				if c11RefExtKey[o.Key] != pn.Obj().Name() {
					bad = append(bad, fmt.Sprintf("extended id taken from the peer's m[%q] but the payload is %s (reference: %q carries %s)", o.Key, pn.Obj().Name(), o.Key, c11RefExtKey[o.Key]))
				}
			default:
				bad = append(bad, "extended id of unknown origin: "+o.Why)
			}
		}
		// metadata payloads with data must be passed by value
		if pn == tMeta && ptr {
			kit.Instrs(st.Fn, func(ins ssa.Instruction) {
				if v, ok := kit.StoresField(ins, fData); ok && !kit.Canon(v).IsNil() {
					bad = append(bad, "ExtensionMetadataMessage with Data passed by pointer: WriteTo appends Data only for the value form, the piece bytes would be dropped")
				}
			})
		}
		if len(bad) > 0 {
			c.Bad("R11.5", key, posOf(st.Store), "%s", strings.Join(bad, "; "))
		} else {
			how := "the peer's handshake map under the matching key"
			if pn == tHS {
				how = "the handshake constant 0"
			}
			c.OK("R11.5", key, posOf(st.Store), "outgoing %s: extended id originates from %s", pn.Obj().Name(), how)
		}
	}
	c.Floor("R11.5", "outgoing ExtensionMessage literals", nOut, 5)
	_ = nehObj

	c11ExtWriteTo(c, k, wt, fExtID, fPayload, fData, tMeta)
}

func c11DerefNamed(t types.Type) *types.Named {
	if t == nil {
		return nil
	}
	return derefNamed(t)
}

func c11SortedKeys(m map[string]string) []string {
	var out []string
	for k := range m {
		out = append(out, k)
	}
	sort.Strings(out)
	return out
}

func c11SortedKeysInt(m map[string]int64) []string {
	var out []string
	for k := range m {
		out = append(out, k)
	}
	sort.Strings(out)
	return out
}

// c11ExtWriteTo checks the shape of ExtensionMessage.WriteTo: one id byte,
// the bencoded payload, the raw Data of a by-value metadata message, and a
// returned count that includes every byte written (the frame length is
// computed from it).
func c11ExtWriteTo(c *kit.Ctx, k *keyer, wt *ssa.Function, fExtID, fPayload, fData *types.Var, tMeta *types.Named) {
	w := wt.Params[1]
	var writes []*ssa.Call
	var counts []*ssa.Call
	var encodes []*ssa.Call
	kit.Instrs(wt, func(ins ssa.Instruction) {
		call, ok := ins.(*ssa.Call)
		if !ok {
			return
		}
		if call.Call.IsInvoke() && call.Call.Value == ssa.Value(w) && call.Call.Method.Name() == "Write" {
			writes = append(writes, call)
		}
		if c11IsStatic(&call.Call, kit.ModPath+"/"+c11PP, "writerCounter", "Count") {
			counts = append(counts, call)
		}
		if _, rt, name := c11Static(&call.Call); rt == "Encoder" && name == "Encode" {
			encodes = append(encodes, call)
		}
	})
	key := kit.FuncName(wt) + "/shape"
	var bad []string
	if len(writes) != 2 || len(counts) != 1 || len(encodes) != 1 {
		bad = append(bad, fmt.Sprintf("expected id-byte write, Encode through a counting writer, Data write; found %d writes, %d Encode, %d Count", len(writes), len(encodes), len(counts)))
	} else {
		sort.Slice(writes, func(i, j int) bool { return kit.Dominates(writes[i], writes[j]) })
		// id byte
		okID := false
		if sl, ok := writes[0].Call.Args[0].(*ssa.Slice); ok {
			if a, ok := sl.X.(*ssa.Alloc); ok {
				if arr, ok := c11ElemType(a).Underlying().(*types.Array); ok && arr.Len() == 1 {
					for _, r := range *a.Referrers() {
						if ia, ok := r.(*ssa.IndexAddr); ok {
							for _, r2 := range *ia.Referrers() {
								if st, ok := r2.(*ssa.Store); ok && kit.Canon(st.Val).IsField(fExtID) {
									okID = true
								}
							}
						}
					}
				}
			}
		}
		if !okID {
			bad = append(bad, "the first write is not the single byte m.ExtendedMessageID")
		}
		if !kit.Canon(encodes[0].Call.Args[1]).Strip().IsField(fPayload) {
			bad = append(bad, "Encode is not applied to m.Payload")
		}
		if !kit.Dominates(writes[0], encodes[0]) || !kit.Dominates(encodes[0], writes[1]) {
			bad = append(bad, "order is not id byte, dictionary, data")
		}
		// data write: by-value metadata message
		d := kit.Canon(writes[1].Call.Args[0])
		okData := false
		if d.IsField(fData) {
			isMeta := c.AtomFlow(wt, func(a kit.Atom) bool {
				return a.IsTrue(func(e *kit.Expr) bool {
					if e.Kind != "extract" || e.Idx != 1 || e.Args[0].Kind != "typeassert" {
						return false
					}
					ta, ok := e.Args[0].V.(*ssa.TypeAssert)
					return ok && ta.AssertedType == types.Type(tMeta) && kit.Canon(ta.X).IsField(fPayload)
				})
			}, nil)
			okData = isMeta.Before(writes[1])
		}
		if !okData {
			bad = append(bad, "the second write is not Data of m.Payload.(ExtensionMetadataMessage)")
		}
		// returned count
		sources := []*ssa.Call{writes[0], counts[0], writes[1]}
		notRun := map[*ssa.Call]*kit.Flow{}
		for _, s := range sources {
			s := s
			notRun[s] = (&kit.Flow{P: c.Prog, Fn: wt, Entry: true, Instr: func(ins ssa.Instruction, in bool) bool {
				if ins == ssa.Instruction(s) {
					return false
				}
				return in
			}}).Solve()
		}
		for _, r := range returnsOf(wt) {
			for _, alt := range c11SumAlts(r.Results[0], r) {
				for _, s := range sources {
					found := false
					for _, leaf := range alt.leaves {
						lv := c11StripConv(leaf)
						if lv == ssa.Value(s) {
							found = true
						}
						if ex, ok := lv.(*ssa.Extract); ok && ex.Index == 0 && ex.Tuple == ssa.Value(s) {
							found = true
						}
					}
					// either the count of s is a term of the returned n, or s
					// has not executed on any path reaching this alternative
					if !found && (!notRun[s].Before(alt.at) || (alt.after != nil && alt.after.Dominates(s.Block()))) {
						bad = append(bad, fmt.Sprintf("the count returned at %s may omit the bytes written by %s (%s): the frame length would be short", c.Pos(posOf(r)), kit.Canon(s), c.Pos(posOf(s))))
					}
				}
			}
		}
	}
	if len(bad) > 0 {
		c.Bad("R11.5", key, wt.Pos(), "%s", strings.Join(c11UniqStrings(bad), "; "))
	} else {
		c.OK("R11.5", key, wt.Pos(), "WriteTo = [ExtendedMessageID] ++ bencode(Payload) ++ Data (by-value metadata message), n counts all three on every return")
	}
}

func c11UniqStrings(in []string) []string {
	seen := map[string]bool{}
	var out []string
	for _, s := range in {
		if !seen[s] {
			seen[s] = true
			out = append(out, s)
		}
	}
	return out
}

type c11Alt struct {
	leaves []ssa.Value
	at     ssa.Instruction // program point the alternative is known to pass
	edge   bool            // at is the terminator of a phi predecessor
	after  *ssa.BasicBlock // block of the outermost phi the value went through
}

// c11SumAlts expands v into its additive alternatives: phis fork, `a + b`
// joins; constant zeros are dropped.
func c11SumAlts(v ssa.Value, at ssa.Instruction) []c11Alt {
	pick := func(a, b c11Alt) (ssa.Instruction, bool) {
		switch {
		case a.edge && !b.edge:
			return a.at, true
		case b.edge && !a.edge:
			return b.at, true
		case kit.Dominates(a.at, b.at):
			return b.at, a.edge
		}
		return a.at, a.edge
	}
	var rec func(v ssa.Value, at ssa.Instruction, depth int) []c11Alt
	rec = func(v ssa.Value, at ssa.Instruction, depth int) []c11Alt {
		if depth > 8 {
			return []c11Alt{{leaves: []ssa.Value{v}, at: at}}
		}
		switch x := v.(type) {
		case *ssa.Phi:
			var out []c11Alt
			for i, e := range x.Edges {
				pred := x.Block().Preds[i]
				for _, a := range rec(e, pred.Instrs[len(pred.Instrs)-1], depth+1) {
					if !a.edge {
						a.at, a.edge = pred.Instrs[len(pred.Instrs)-1], true
					}
					a.after = x.Block()
					out = append(out, a)
				}
			}
			return out
		case *ssa.BinOp:
			if x.Op == token.ADD {
				var out []c11Alt
				for _, l := range rec(x.X, at, depth+1) {
					for _, r := range rec(x.Y, at, depth+1) {
						n := c11Alt{leaves: append(append([]ssa.Value{}, l.leaves...), r.leaves...)}
						n.at, n.edge = pick(l, r)
						n.after = l.after
						if n.after == nil {
							n.after = r.after
						}
						out = append(out, n)
					}
				}
				return out
			}
		case *ssa.Const:
			if z, ok := c11ConstInt(x); ok && z == 0 {
				return []c11Alt{{at: at}}
			}
		}
		return []c11Alt{{leaves: []ssa.Value{v}, at: at}}
	}
	return rec(v, at, 0)
}

// c11ArgValues resolves a value that is a parameter of a function whose call
// sites are all static to the argument values at those sites (depth levels);
// any other value stands for itself.
func c11ArgValues(c *kit.Ctx, v ssa.Value, depth int) []ssa.Value {
	p, ok := v.(*ssa.Parameter)
	if !ok || depth <= 0 {
		return []ssa.Value{v}
	}
	fn := p.Parent()
	idx := -1
	for i, q := range fn.Params {
		if q == p {
			idx = i
		}
	}
	sites := c.StaticCallSites(fn)
	if idx < 0 || len(sites) == 0 {
		return []ssa.Value{v}
	}
	var out []ssa.Value
	for _, site := range sites {
		call, _ := site.(*ssa.Call)
		if call == nil || idx >= len(call.Call.Args) {
			return []ssa.Value{v} // unknown context
		}
		out = append(out, c11ArgValues(c, call.Call.Args[idx], depth-1)...)
	}
	return out
}

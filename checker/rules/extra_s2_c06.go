package rules

import (
	"go/token"
	"go/types"
	"sort"
	"strings"

	"golang.org/x/tools/go/ssa"

	"rainverif/checker/kit"
)

// Rules added after the second round of independently seeded changes
// (property C06: untrusted metainfo is rejected or well-formed; adding and
// starting it terminates, no input makes the client crash or hang).

func init() {
	registerExtra("C06", runR06_6)
	registerExtra("C06", runR06_7)
	registerExtra("C06", func(c *kit.Ctx) { CheckConfigFieldsRead(c, "R06.8", configUnreadOK) })
}

// ---- R06.6 a tracker tier is never built empty
//
// Tier.Announce / Tier.URL index Trackers[wrap(i)] and wrap() yields 0 for an
// empty slice: a Tier with no tracker panics in the announcer goroutine (no
// recover: the process dies, and again at every restart because the torrent is
// recorded as started). The tracker URLs come from the .torrent file / magnet /
// resume data, and trackermanager.Get rejects URLs that metainfo.New lets
// through, so "the input tier is non-empty" is not enough. Necessary condition:
//
//	(a) Tier.Trackers is written only by tracker.NewTier, from its parameter;
//	    NewTier is not taken as a value;
//	(b) every call of NewTier is reached only under len(x) > 0 (any spelling:
//	    > 0, != 0, >= 1) on the very slice value passed; when the call sits in a
//	    helper and the slice is the helper's parameter, the guard is looked for
//	    at every static call site of the helper.
func runR06_6(c *kit.Ctx) {
	k := newKeyer()
	newTier := c.Func("internal/tracker", "NewTier")
	newTierObj := c.FuncObj("internal/tracker", "NewTier")
	fTrackers := c.Field("internal/tracker", "Tier", "Trackers")

	// why it matters: the unguarded index expressions in Tier's methods
	nIdx := 0
	for _, fn := range c.ModuleFunctions() {
		if !inPkg(fn, c, "internal/tracker") {
			continue
		}
		kit.Instrs(fn, func(ins ssa.Instruction) {
			if ia, ok := ins.(*ssa.IndexAddr); ok && kit.Canon(ia.X).IsField(fTrackers) {
				nIdx++
				c.Present("R06.6", k.key(fn, "index Tier.Trackers"), posOf(ins), "Tier.Trackers[%s] is evaluated without a length test of its own: safe only for a non-empty tier", kit.Canon(ia.Index))
			}
		})
	}
	c.Floor("R06.6", "index expressions on Tier.Trackers in package tracker", nIdx, 2)

	// (a)
	nSt := 0
	for _, st := range fieldStores(c, fTrackers) {
		nSt++
		ok := st.Fn == newTier && len(newTier.Params) == 1 && c14Trace(st.Val) == ssa.Value(newTier.Params[0])
		c.Check(ok, "R06.6", k.key(st.Fn, "store Tier.Trackers"), posOf(st.Store),
			"Tier.Trackers is set by NewTier from its parameter (call sites checked)",
			"Tier.Trackers is written outside tracker.NewTier (or not from its parameter): a tier can be built without the non-empty guard of the NewTier call sites")
	}
	c.Floor("R06.6", "stores of Tier.Trackers", nSt, 1)
	for _, s := range c.FuncRefs(newTierObj) {
		c.Bad("R06.6", k.key(s.Fn, "ref NewTier"), s.Fn.Pos(), "tracker.NewTier taken as a value: its callers cannot be enumerated")
	}

	// (b)
	flows := map[ssa.Value]*kit.Flow{}
	var nonEmpty func(v ssa.Value, at ssa.Instruction, up int) (bool, string)
	nonEmpty = func(v ssa.Value, at ssa.Instruction, up int) (bool, string) {
		fn := at.Parent()
		// a slice literal with at least one element
		if sl, ok := v.(*ssa.Slice); ok {
			if al, ok := sl.X.(*ssa.Alloc); ok {
				if arr, ok := al.Type().Underlying().(*types.Pointer).Elem().Underlying().(*types.Array); ok && arr.Len() > 0 && sl.Low == nil && sl.High == nil {
					return true, "a non-empty literal"
				}
			}
		}
		fl := flows[v]
		if fl == nil {
			fl = c.AtomFlow(fn, func(a kit.Atom) bool {
				if a.L == nil || a.L.Kind != "len" || a.L.Args[0].V != v {
					return false
				}
				n, ok := a.R.IntConst()
				if !ok {
					return false
				}
				return (a.Op == token.GTR && n >= 0) || (a.Op == token.NEQ && n == 0) || (a.Op == token.GEQ && n >= 1)
			}, nil)
			flows[v] = fl
		}
		if fl.Before(at) {
			return true, "len(" + kit.Canon(v).String() + ") > 0 in " + fn.Name()
		}
		prm, ok := v.(*ssa.Parameter)
		if !ok || up <= 0 {
			return false, ""
		}
		idx := -1
		for i, q := range fn.Params {
			if q == prm {
				idx = i
			}
		}
		sites := c.StaticCallSites(fn)
		if idx < 0 || len(sites) == 0 {
			return false, ""
		}
		var whys []string
		for _, site := range sites {
			call, _ := site.(*ssa.Call)
			if call == nil || idx >= len(call.Call.Args) {
				return false, ""
			}
			ok, why := nonEmpty(call.Call.Args[idx], call, up-1)
			if !ok {
				return false, ""
			}
			whys = append(whys, why)
		}
		return true, "at every call site of " + fn.Name() + ": " + strings.Join(whys, "; ")
	}
	n := 0
	for _, s := range sortSites(c.CallSites(newTierObj)) {
		n++
		key := k.key(s.Fn, "call tracker.NewTier")
		call, isCall := s.Instr.(*ssa.Call)
		if !isCall {
			c.Bad("R06.6", key, posOf(s.Instr), "tracker.NewTier in a go/defer statement")
			continue
		}
		ok, why := nonEmpty(call.Call.Args[0], call, 2)
		if ok {
			c.OK("R06.6", key, posOf(call), "tier built only from a non-empty tracker slice (%s)", why)
		} else {
			c.Bad("R06.6", key, posOf(call), "tracker.NewTier(%s) is not dominated by a len(..) > 0 test on the very slice passed: when every announce URL of a tier is rejected by trackermanager.Get (e.g. http://%%zz/announce passes metainfo.New but not url.Parse) an empty Tier is built and Tier.Announce / Tier.URL index Trackers[0]: the announcer goroutine panics and takes the process down, again at every restart", kit.Canon(call.Call.Args[0]))
		}
	}
	c.Floor("R06.6", "call sites of tracker.NewTier", n, 1)
}

// ---- R06.7 fetching a torrent URL is bounded in time by the configured limit
//
// Session.addURL downloads attacker-chosen URLs. LimitReader bounds the size;
// only http.Client.Timeout (or a context deadline on the request) bounds the
// time spent reading the body. Every HTTP client call in the inlined view of
// addURL must use a client whose Timeout field is set, at every allocation
// the receiver can come from, from Config.TorrentAddHTTPTimeout and from
// nothing else - or a request whose context is context.WithTimeout(_, that
// field).
func runR06_7(c *kit.Ctx) {
	k := newKeyer()
	addURL := c.Func("torrent", "(*Session).addURL")
	fTO := c.Field("torrent", "Config", "TorrentAddHTTPTimeout")
	clientT := c.Named("net/http", "Client")
	fClientTO := c.Field("net/http", "Client", "Timeout")
	newReqCtx := c.FuncObj("net/http", "NewRequestWithContext")
	withTimeout := c.FuncObj("context", "WithTimeout")
	fromCfg := func(v ssa.Value) bool { return kit.Canon(c14Trace(v)).Strip().IsField(fTO) }

	// origins: the allocations a client pointer / value can denote
	var origins func(v ssa.Value, d int, out map[*ssa.Alloc]bool) bool
	origins = func(v ssa.Value, d int, out map[*ssa.Alloc]bool) bool {
		if d > 6 || v == nil {
			return false
		}
		switch x := v.(type) {
		case *ssa.Alloc:
			// a local that receives a whole client value: follow the value
			whole := false
			okAll := true
			if x.Referrers() != nil {
				for _, r := range *x.Referrers() {
					if st, ok := r.(*ssa.Store); ok && st.Addr == ssa.Value(x) {
						whole = true
						if !origins(st.Val, d+1, out) {
							okAll = false
						}
					}
				}
			}
			if !whole {
				out[x] = true // must carry the Timeout itself
				return true
			}
			// a copy destination: its own stores are checked, none is required
			if _, have := out[x]; !have {
				out[x] = false
			}
			return okAll
		case *ssa.UnOp:
			if x.Op == token.MUL {
				return origins(x.X, d+1, out)
			}
		case *ssa.Phi:
			for _, e := range x.Edges {
				if !origins(e, d+1, out) {
					return false
				}
			}
			return true
		case *ssa.ChangeType:
			return origins(x.X, d+1, out)
		case *ssa.Extract:
			if call, ok := x.Tuple.(*ssa.Call); ok {
				return originsOfCall(c, call, x.Index, d, out, origins)
			}
		case *ssa.Call:
			return originsOfCall(c, x, 0, d, out, origins)
		}
		return false
	}

	n := 0
	c.InstrsDeep(addURL, 2, false, func(ins ssa.Instruction) {
		cc := kit.CallOf(ins)
		if cc == nil || cc.IsInvoke() {
			return
		}
		callee := cc.StaticCallee()
		if callee == nil || callee.Signature.Recv() == nil || derefNamed(callee.Signature.Recv().Type()) != clientT {
			// package-level helpers use http.DefaultClient, which has no timeout
			if callee != nil && callee.Pkg != nil && callee.Pkg.Pkg.Path() == "net/http" && callee.Signature.Recv() == nil {
				switch callee.Name() {
				case "Get", "Head", "Post", "PostForm":
					n++
					c.Bad("R06.7", k.key(ins.Parent(), "http request"), posOf(ins), "http.%s uses http.DefaultClient, which has no timeout: a server that stalls after the headers blocks AddURI for ever", callee.Name())
				}
			}
			return
		}
		switch callee.Name() {
		case "Get", "Do", "Head", "Post", "PostForm":
		default:
			return
		}
		n++
		key := k.key(ins.Parent(), "http request")
		// request-scoped deadline
		if callee.Name() == "Do" && len(cc.Args) == 2 {
			req := kit.Canon(c14Trace(cc.Args[1]))
			if req.Kind == "extract" && req.Idx == 0 && req.Args[0].IsCallTo(newReqCtx) && len(req.Args[0].Args) > 0 {
				ctx := req.Args[0].Args[0]
				if ctx.Kind == "extract" && ctx.Idx == 0 && ctx.Args[0].IsCallTo(withTimeout) && len(ctx.Args[0].Args) == 2 && ctx.Args[0].Args[1].Strip().IsField(fTO) {
					c.OK("R06.7", key, posOf(ins), "request context is context.WithTimeout(_, config.TorrentAddHTTPTimeout)")
					return
				}
			}
		}
		objs := map[*ssa.Alloc]bool{}
		if !origins(cc.Args[0], 0, objs) || len(objs) == 0 {
			c.Bad("R06.7", key, posOf(ins), "the http.Client used for the torrent URL (%s) is not a client built for this request: its Timeout cannot be related to config.TorrentAddHTTPTimeout, so reading the body is not bounded in time", kit.Canon(cc.Args[0]))
			return
		}
		set, bad := 0, ""
		missing := false
		for a, must := range objs {
			before := set
			for _, fn := range kit.WithAnon(c14RootFn(a.Parent())) {
				kit.Instrs(fn, func(i2 ssa.Instruction) {
					st, ok := i2.(*ssa.Store)
					if !ok {
						return
					}
					fa, ok := st.Addr.(*ssa.FieldAddr)
					if !ok || kit.Canon(fa).Field != fClientTO || c14Trace(fa.X) != ssa.Value(a) && fa.X != ssa.Value(a) {
						return
					}
					if fromCfg(st.Val) {
						set++
					} else {
						bad = kit.Canon(st.Val).String()
					}
				})
			}
			if must && set == before {
				missing = true
			}
		}
		switch {
		case bad != "":
			c.Bad("R06.7", key, posOf(ins), "the client's Timeout is set to %s, not to config.TorrentAddHTTPTimeout", bad)
		case set == 0 || missing:
			c.Bad("R06.7", key, posOf(ins), "the http.Client that fetches the torrent URL has no overall Timeout (config.TorrentAddHTTPTimeout is not wired to it): LimitReader bounds the size but a server that answers the headers and then stalls, or drips bytes below MaxTorrentSize, blocks AddURI and its RPC handler for ever")
		default:
			c.OK("R06.7", key, posOf(ins), "client.Timeout = config.TorrentAddHTTPTimeout on every allocation the receiver denotes")
		}
	})
	c.Floor("R06.7", "HTTP client calls in Session.addURL", n, 1)
}

// originsOfCall: the allocations result idx of a module function can denote.
func originsOfCall(c *kit.Ctx, call *ssa.Call, idx, d int, out map[*ssa.Alloc]bool, origins func(ssa.Value, int, map[*ssa.Alloc]bool) bool) bool {
	h := call.Call.StaticCallee()
	if h == nil || h.Blocks == nil || !kit.InModule(pkgOf(h)) {
		return false
	}
	n := 0
	for _, r := range returnsOf(h) {
		if r.Block() == h.Recover || idx >= len(r.Results) {
			continue
		}
		if k, ok := r.Results[idx].(*ssa.Const); ok && k.Value == nil {
			continue
		}
		n++
		if !origins(r.Results[idx], d+1, out) {
			return false
		}
	}
	return n > 0
}

// ---- R06.8 (generic, reusable) every configuration field is read
//
// A limit that no code reads is not enforced. CheckConfigFieldsRead requires,
// for every field of torrent.Config, a read (a load of the field, or its
// address passed on) somewhere in the module outside the initialiser of
// DefaultConfig. Fields that are legitimately never read are listed in
// `exempt` with the reason; an exempt field that is read is reported as a
// stale entry (Present), never silently skipped.
func CheckConfigFieldsRead(c *kit.Ctx, rule string, exempt map[string]string) {
	cfgT := c.Named("torrent", "Config")
	st := cfgT.Underlying().(*types.Struct)
	isCfg := map[*types.Var]bool{}
	for i := 0; i < st.NumFields(); i++ {
		isCfg[st.Field(i)] = true
	}
	type use struct {
		fn  *ssa.Function
		ins ssa.Instruction
	}
	reads := map[*types.Var][]use{}
	for _, fn := range c.ModuleFunctions() {
		if fn.Synthetic != "" && fn.Name() == "init" {
			continue
		}
		kit.Instrs(fn, func(ins ssa.Instruction) {
			switch x := ins.(type) {
			case *ssa.Field:
				if s, ok := x.X.Type().Underlying().(*types.Struct); ok && isCfg[s.Field(x.Field)] {
					reads[s.Field(x.Field)] = append(reads[s.Field(x.Field)], use{fn, ins})
				}
			case *ssa.FieldAddr:
				f := kit.Canon(x).Field
				if f == nil || !isCfg[f] || x.Referrers() == nil {
					return
				}
				for _, r := range *x.Referrers() {
					if s, ok := r.(*ssa.Store); ok && s.Addr == ssa.Value(x) {
						continue // a write
					}
					reads[f] = append(reads[f], use{fn, ins})
					break
				}
			}
		})
	}
	names := make([]string, 0, st.NumFields())
	byName := map[string]*types.Var{}
	for i := 0; i < st.NumFields(); i++ {
		names = append(names, st.Field(i).Name())
		byName[st.Field(i).Name()] = st.Field(i)
	}
	sort.Strings(names)
	n := 0
	for _, name := range names {
		f := byName[name]
		key := "Config." + name + "/read"
		rs := reads[f]
		why, isExempt := exempt[name]
		switch {
		case len(rs) > 0 && isExempt:
			n++
			c.Present(rule, key, posOf(rs[0].ins), "read in %s (listed as legitimately unread: %s - the entry is stale)", rs[0].fn.Name(), why)
		case len(rs) > 0:
			n++
			c.Present(rule, key, posOf(rs[0].ins), "read in %s (%d site(s))", rs[0].fn.Name(), len(rs))
		case isExempt:
			c.Present(rule, key, f.Pos(), "never read in the module, accepted: %s", why)
		default:
			c.Bad(rule, key, f.Pos(), "Config.%s is never read anywhere in the module: the configured limit / setting is not wired to anything and is therefore not enforced", name)
		}
	}
	c.Floor(rule, "fields of torrent.Config that are read", n, 40)
	for name := range exempt {
		if byName[name] == nil {
			c.Present(rule, "Config."+name+"/read", token.NoPos, "listed as legitimately unread but no longer a field of Config")
		}
	}
}

// configUnreadOK lists the Config fields that today's tree legitimately never
// reads, with the reason.
var configUnreadOK = map[string]string{
	"WebseedRetryInterval": "not a bound on untrusted input: torrent.notifyWebseedRetry waits a hard-coded time.After(time.Minute), which equals the default of the setting; the setting is simply not wired (proposed repair: fixes/webseed_retry_interval.diff)",
}

package rules

import (
	"fmt"
	"go/token"
	"go/types"
	"sort"

	"golang.org/x/tools/go/ssa"

	"rainverif/checker/kit"
)

// keyer hands out construct keys "<fn>/<what>#<n>" with a per-(fn,what)
// ordinal so that keys do not contain line numbers.
type keyer struct{ n map[string]int }

func newKeyer() *keyer { return &keyer{n: map[string]int{}} }

func (k *keyer) key(fn *ssa.Function, what string) string {
	base := kit.FuncName(fn) + "/" + what
	k.n[base]++
	return fmt.Sprintf("%s#%d", base, k.n[base])
}

// sortSites orders sites by position.
func sortSites(s []kit.Site) []kit.Site {
	sort.SliceStable(s, func(i, j int) bool { return s[i].Instr.Pos() < s[j].Instr.Pos() })
	return s
}

func fnIn(fn *ssa.Function, set ...*ssa.Function) bool {
	for _, s := range set {
		if fn == s {
			return true
		}
		// closures of an allowed function are allowed
		for p := fn.Parent(); p != nil; p = p.Parent() {
			if p == s {
				return true
			}
		}
	}
	return false
}

// pkgOf returns the module-relative package path of fn.
func pkgOf(fn *ssa.Function) string {
	return kit.FnPkgPath(fn)
}

func inPkg(fn *ssa.Function, c *kit.Ctx, rel string) bool {
	return pkgOf(fn) == c.Pkg(rel).Pkg.Path()
}

// fieldStores lists every store to field f in module code.
type fieldStore struct {
	Fn    *ssa.Function
	Store *ssa.Store
	Val   ssa.Value
}

func fieldStores(c *kit.Ctx, f *types.Var) []fieldStore {
	var out []fieldStore
	for _, fn := range c.ModuleFunctions() {
		kit.Instrs(fn, func(ins ssa.Instruction) {
			if v, ok := kit.StoresField(ins, f); ok {
				out = append(out, fieldStore{fn, ins.(*ssa.Store), v})
			}
		})
	}
	return out
}

// posOf returns a usable position for an instruction (falls back to the
// function position).
func posOf(ins ssa.Instruction) token.Pos {
	if ins == nil {
		return token.NoPos
	}
	if p := ins.Pos(); p.IsValid() {
		return p
	}
	if c, ok := ins.(ssa.CallInstruction); ok {
		if p := c.Common().Pos(); p.IsValid() {
			return p
		}
	}
	if st, ok := ins.(*ssa.Store); ok {
		if v, ok := st.Addr.(ssa.Instruction); ok && v.Pos().IsValid() {
			return v.Pos()
		}
		if v, ok := st.Val.(ssa.Instruction); ok && v.Pos().IsValid() {
			return v.Pos()
		}
	}
	if ins.Parent() != nil {
		return ins.Parent().Pos()
	}
	return token.NoPos
}

// argOf returns call argument i counting the receiver as argument 0 for
// both static method calls and interface invokes.
func argOf(c *ssa.CallCommon, i int) ssa.Value {
	if c.IsInvoke() {
		if i == 0 {
			return c.Value
		}
		i--
	}
	if i < len(c.Args) {
		return c.Args[i]
	}
	return nil
}

// compositeStores finds stores into field f of a freshly allocated struct
// (composite literal) in fn, returning the stored values.
func returnsOf(fn *ssa.Function) []*ssa.Return {
	var out []*ssa.Return
	for _, b := range fn.Blocks {
		if len(b.Instrs) > 0 {
			if r, ok := b.Instrs[len(b.Instrs)-1].(*ssa.Return); ok {
				out = append(out, r)
			}
		}
	}
	return out
}

// checkWriteErrorDiscipline: in every module function that calls WriteAt on
// a storage file, the error of one WriteAt is tested (or returned) before
// the next WriteAt or a return: a failed section write must not be
// overwritten by a later successful one.
func checkWriteErrorDiscipline(c *kit.Ctx, k *keyer, rule string) {
	writeAt := c.FuncObj("io", "WriterAt.WriteAt")
	osWriteAt := c.FuncObj("os", "(*File).WriteAt")
	isWrite := func(ins ssa.Instruction) bool {
		_, isCall := ins.(*ssa.Call)
		return isCall && kit.CallsAny(ins, writeAt, osWriteAt)
	}
	n := 0
	for _, fn := range c.ModuleFunctions() {
		has := false
		kit.Instrs(fn, func(ins ssa.Instruction) {
			if isWrite(ins) {
				has = true
			}
		})
		if !has {
			continue
		}
		isWriteErr := func(e *kit.Expr) bool {
			if e.Kind != "extract" || e.Idx != 1 {
				return false
			}
			call, ok := e.Args[0].V.(*ssa.Call)
			return ok && isWrite(call)
		}
		fl := (&kit.Flow{P: c.Prog, Fn: fn, Entry: true,
			Edge: func(a kit.Atom) bool { return a.IsNilCmp(true, isWriteErr) },
			Instr: func(ins ssa.Instruction, in bool) bool {
				if isWrite(ins) {
					return false
				}
				return in
			}}).Solve()
		kit.Instrs(fn, func(ins ssa.Instruction) {
			if !isWrite(ins) {
				return
			}
			n++
			c.Check(fl.Before(ins), rule, k.key(fn, "WriteAt after unchecked WriteAt"), posOf(ins),
				"no earlier WriteAt error is pending when this WriteAt executes", "a WriteAt can execute while the error of an earlier WriteAt has not been tested: a failed section write is overwritten by the next one and the piece is reported as written")
		})
		var mentions func(v ssa.Value, depth int) bool
		mentions = func(v ssa.Value, depth int) bool {
			if depth > 4 {
				return false
			}
			if isWriteErr(kit.Canon(v)) {
				return true
			}
			if phi, ok := v.(*ssa.Phi); ok {
				for _, e := range phi.Edges {
					if mentions(e, depth+1) {
						return true
					}
				}
			}
			return false
		}
		for _, r := range returnsOf(fn) {
			if fl.Before(r) {
				continue
			}
			ok := false
			for _, res := range r.Results {
				if types.Identical(res.Type(), types.Universe.Lookup("error").Type()) && mentions(res, 0) {
					ok = true
				}
			}
			c.Check(ok, rule, k.key(fn, "return with pending write error"), posOf(r),
				"a return reached with an untested WriteAt error returns that error", "a return is reachable with a WriteAt error neither tested nor returned")
		}
	}
	c.Floor(rule, "WriteAt sites examined for error discipline", n, 1)
}

// checkWriterRecordsError: in PieceWriter.Run (and the helpers it calls, walked
// in Run's own context), after Piece.Write the result is delivered only once
// that call's error has been stored into PieceWriter.Error on every path (no
// filtering of write errors). The fact is keyed on the callee object and the
// field, so the write and the delivery may each be moved into a helper.
func checkWriterRecordsError(c *kit.Ctx, k *keyer, rule string) {
	run := c.Func("internal/piecewriter", "(*PieceWriter).Run")
	fError := c.Field("internal/piecewriter", "PieceWriter", "Error")
	pieceWrite := c.FuncObj("internal/filesection", "Piece.Write")
	isWrite := func(ins ssa.Instruction) bool {
		_, isCall := ins.(*ssa.Call)
		return isCall && kit.CallsAny(ins, pieceWrite)
	}
	writeFn := c.Func("internal/filesection", "(Piece).Write")
	spec := &kit.Spec{P: c.Prog, Deep: kit.DefaultDeep, Instr: func(ins ssa.Instruction, in bool) bool {
		// The call of Piece.Write opens the obligation. With callee summaries the
		// flow engine lets the callee's body decide the value after a call that
		// is not a generator, which would undo this kill: so every instruction of
		// Piece.Write's own body kills as well (its summary is then "false").
		if isWrite(ins) || ins.Parent() == writeFn {
			return false
		}
		if v, ok := kit.StoresField(ins, fError); ok {
			e := kit.Canon(v)
			if e.Kind == "extract" && e.Idx == 1 && e.Args[0].IsCallTo(pieceWrite) {
				return true
			}
		}
		return in
	}}
	n := 0
	spec.VisitDown(run, true, 2, func(ins ssa.Instruction, before bool) {
		if !isResultDelivery(c, ins) {
			return
		}
		n++
		c.Check(before, rule, k.key(ins.Parent(), "deliver with recorded write error"), posOf(ins),
			"on every path from Piece.Write to the result delivery the write's error is stored into PieceWriter.Error", "the writer can deliver its result although the error of Piece.Write was not recorded on some path (a filtered / dropped write error makes a failed write look successful: bit set and persisted without the data on disk)")
	})
	c.Floor(rule, "result deliveries in PieceWriter.Run", n, 1)
}

// isResultDelivery recognises a channel send (plain or as a select case) of a
// *PieceWriter: the delivery of the writer's result, wherever it sits.
func isResultDelivery(c *kit.Ctx, ins ssa.Instruction) bool {
	tPW := c.Named("internal/piecewriter", "PieceWriter")
	isPWChan := func(ch ssa.Value) bool {
		t, ok := ch.Type().Underlying().(*types.Chan)
		if !ok {
			return false
		}
		p, ok := t.Elem().(*types.Pointer)
		if !ok {
			return false
		}
		n, ok := p.Elem().(*types.Named)
		return ok && n == tPW
	}
	switch x := ins.(type) {
	case *ssa.Send:
		return isPWChan(x.Chan)
	case *ssa.Select:
		for _, st := range x.States {
			if st.Dir == types.SendOnly && isPWChan(st.Chan) {
				return true
			}
		}
	}
	return false
}

package rules

import (
	"fmt"
	"go/token"
	"go/types"
	"sort"

	"golang.org/x/tools/go/ssa"

	"rainverif/checker/kit"
)

// keyer hands out construct keys "<fn>/<what>#<n>" with a per-(fn,what)
// ordinal so that keys do not contain line numbers.
type keyer struct{ n map[string]int }

func newKeyer() *keyer { return &keyer{n: map[string]int{}} }

func (k *keyer) key(fn *ssa.Function, what string) string {
	base := kit.FuncName(fn) + "/" + what
	k.n[base]++
	return fmt.Sprintf("%s#%d", base, k.n[base])
}

// sortSites orders sites by position.
func sortSites(s []kit.Site) []kit.Site {
	sort.SliceStable(s, func(i, j int) bool { return s[i].Instr.Pos() < s[j].Instr.Pos() })
	return s
}

func fnIn(fn *ssa.Function, set ...*ssa.Function) bool {
	for _, s := range set {
		if fn == s {
			return true
		}
		// closures of an allowed function are allowed
		for p := fn.Parent(); p != nil; p = p.Parent() {
			if p == s {
				return true
			}
		}
	}
	return false
}

// pkgOf returns the module-relative package path of fn.
func pkgOf(fn *ssa.Function) string {
	return kit.FnPkgPath(fn)
}

func inPkg(fn *ssa.Function, c *kit.Ctx, rel string) bool {
	return pkgOf(fn) == c.Pkg(rel).Pkg.Path()
}

// fieldStores lists every store to field f in module code.
type fieldStore struct {
	Fn    *ssa.Function
	Store *ssa.Store
	Val   ssa.Value
}

func fieldStores(c *kit.Ctx, f *types.Var) []fieldStore {
	var out []fieldStore
	for _, fn := range c.ModuleFunctions() {
		kit.Instrs(fn, func(ins ssa.Instruction) {
			if v, ok := kit.StoresField(ins, f); ok {
				out = append(out, fieldStore{fn, ins.(*ssa.Store), v})
			}
		})
	}
	return out
}

// posOf returns a usable position for an instruction (falls back to the
// function position).
func posOf(ins ssa.Instruction) token.Pos {
	if ins == nil {
		return token.NoPos
	}
	if p := ins.Pos(); p.IsValid() {
		return p
	}
	if c, ok := ins.(ssa.CallInstruction); ok {
		if p := c.Common().Pos(); p.IsValid() {
			return p
		}
	}
	if st, ok := ins.(*ssa.Store); ok {
		if v, ok := st.Addr.(ssa.Instruction); ok && v.Pos().IsValid() {
			return v.Pos()
		}
		if v, ok := st.Val.(ssa.Instruction); ok && v.Pos().IsValid() {
			return v.Pos()
		}
	}
	if ins.Parent() != nil {
		return ins.Parent().Pos()
	}
	return token.NoPos
}

// argOf returns call argument i counting the receiver as argument 0 for
// both static method calls and interface invokes.
func argOf(c *ssa.CallCommon, i int) ssa.Value {
	if c.IsInvoke() {
		if i == 0 {
			return c.Value
		}
		i--
	}
	if i < len(c.Args) {
		return c.Args[i]
	}
	return nil
}

// compositeStores finds stores into field f of a freshly allocated struct
// (composite literal) in fn, returning the stored values.
func returnsOf(fn *ssa.Function) []*ssa.Return {
	var out []*ssa.Return
	for _, b := range fn.Blocks {
		if len(b.Instrs) > 0 {
			if r, ok := b.Instrs[len(b.Instrs)-1].(*ssa.Return); ok {
				out = append(out, r)
			}
		}
	}
	return out
}

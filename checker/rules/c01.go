package rules

import (
	"go/token"
	"go/types"

	"golang.org/x/tools/go/ssa"

	"rainverif/checker/kit"
)

func init() {
	register(&Property{
		ID: "C01",
		Explanation: "Decides the gate structure behind 'only hash-verified data reaches disk or is reported': (R01.1) the only WriteAt on torrent files is filesection.Piece.Write, reachable only from PieceWriter.Run, Truncate only in filestorage.Open; (R01.2) the write is dominated by HashOK==true, HashOK is the result of VerifyHash over the same buffer that is written; (R01.3) VerifyHash returns true only as bytes.Equal(h.Sum, p.Hash) after h.Write(buf) under len(buf)==p.Length, and every hasher passed to it is fresh or Reset; (R01.4) torrent bitfield Set / Piece.Done=true / Have construction only under HashOK && Error==nil (or copied from a verified bitfield), torrent.bitfield only assigned from nil / bitfield.New / Verifier.Bitfield / constructor, verifier sets bits only under VerifyHash==true; (R01.5) hash failure from a peer passes closePeer and the ban-map insert, from a web seed passes disableSource; (R01.6) GotBlock copies only under findBlock==true and not-in-done, findBlock is 'key present and length equal'; (R01.7) every piece-writer spawn is preceded by Writing=true and Suspend of both result channels under Writing==false, the result handler passes both Resume and Writing=false; (R01.8) web-seed result spawns the writer only under Done==false; (R01.9) bufferpool.Get clears the returned slice. NOT decided: byte identity of completed files, behaviour of the gate under every interleaving (state consistency is C09/C04).",
		RuleText:    commonRuleText,
		Assumptions: commonAssumptions,
		Run:         runC01,
	})
}

func runC01(c *kit.Ctx) {
	k := newKeyer()
	pwRun := c.Func("internal/piecewriter", "(*PieceWriter).Run")
	secWrite := c.Func("internal/filesection", "(Piece).Write")
	fsOpen := c.Func("internal/storage/filestorage", "(*FileStorage).Open")
	fHashOK := c.Field("internal/piecewriter", "PieceWriter", "HashOK")
	fError := c.Field("internal/piecewriter", "PieceWriter", "Error")
	fBufData := c.Field("internal/bufferpool", "Buffer", "Data")
	fPWBuffer := c.Field("internal/piecewriter", "PieceWriter", "Buffer")
	verifyHash := c.FuncObj("internal/piece", "(*Piece).VerifyHash")
	writeAt := c.FuncObj("io", "WriterAt.WriteAt")
	pieceWrite := c.FuncObj("internal/filesection", "Piece.Write")

	// ---- R01.1 single writer of torrent files
	//
	// Function boundaries are not part of the rule: a WriteAt may sit in a
	// helper of Piece.Write, Piece.Write may be called from a helper of
	// PieceWriter.Run, Truncate from a helper of FileStorage.Open. What is
	// required is that every call-graph path into the site passes through the
	// gate function (kit.OnlyReachedVia).
	{
		n := 0
		for _, s := range sortSites(c.CallSites(writeAt)) {
			n++
			key := k.key(s.Fn, "call io.WriterAt.WriteAt")
			if inPkg(s.Fn, c, "internal/filesection") && c.OnlyReachedVia(s.Fn, 3, secWrite) {
				c.Present("R01.1", key, posOf(s.Instr), "WriteAt on a section file inside filesection.Piece.Write (or a helper only it calls)")
			} else {
				c.Bad("R01.1", key, posOf(s.Instr), "WriteAt on a storage file outside filesection.Piece.Write: a second road to disk that bypasses the hash gate")
			}
		}
		// concrete os.File writes that could hit torrent data
		for _, m := range []string{"WriteAt", "Truncate"} {
			obj := c.FuncObj("os", "(*File)."+m)
			for _, s := range sortSites(c.CallSites(obj)) {
				key := k.key(s.Fn, "call (*os.File)."+m)
				if m == "Truncate" && inPkg(s.Fn, c, "internal/storage/filestorage") && c.OnlyReachedVia(s.Fn, 3, fsOpen) {
					n++
					c.Present("R01.1", key, posOf(s.Instr), "Truncate only during allocation in filestorage.Open (or a helper only it calls)")
				} else {
					c.Bad("R01.1", key, posOf(s.Instr), "(*os.File).%s outside filestorage.Open / filesection.Piece.Write", m)
				}
			}
		}
		c.Floor("R01.1", "file write sites", n, 3)
		// callers of Piece.Write (call graph, so interface calls count)
		callers := 0
		for _, e := range c.CallersOf(secWrite) {
			cf := e.Caller.Func
			if cf.Synthetic != "" { // wrapper (*Piece).Write -> Piece.Write etc.
				for _, e2 := range c.CallersOf(cf) {
					callers++
					checkPieceWriteCaller(c, k, e2.Caller.Func, e2.Site, pwRun)
				}
				continue
			}
			callers++
			checkPieceWriteCaller(c, k, cf, e.Site, pwRun)
		}
		c.Floor("R01.1", "callers of filesection.Piece.Write", callers, 1)
		// spawn sites of PieceWriter.Run: wherever the writer is started it is
		// started as a goroutine; the obligations that must hold at the spawn
		// (Writing=true, both channels suspended, double-write guard) are
		// evaluated at every site by R01.7.
		runObj := c.FuncObj("internal/piecewriter", "(*PieceWriter).Run")
		spawns := 0
		for _, s := range sortSites(c.CallSites(runObj)) {
			spawns++
			key := k.key(s.Fn, "spawn PieceWriter.Run")
			if _, isGo := s.Instr.(*ssa.Go); isGo {
				c.Present("R01.1", key, posOf(s.Instr), "piece writer started as a goroutine (spawn obligations: R01.7)")
			} else {
				c.Bad("R01.1", key, posOf(s.Instr), "PieceWriter.Run called synchronously / deferred in %s: not a spawn whose obligations R01.7 evaluates", kit.FuncName(s.Fn))
			}
		}
		for _, s := range c.FuncRefs(runObj) {
			c.Bad("R01.1", k.key(s.Fn, "ref PieceWriter.Run"), s.Fn.Pos(), "PieceWriter.Run taken as a value: spawn sites can no longer be enumerated")
		}
		c.Floor("R01.1", "PieceWriter.Run spawn sites", spawns, 2)
	}

	// ---- R01.2 hash dominates write, same bytes
	{
		hashOK := c.FieldBoolSpec(fHashOK, true, kit.DefaultDeep)
		isBufData := func(v ssa.Value) bool {
			e := kit.Canon(v)
			return e.IsField(fBufData) && e.Base().IsField(fPWBuffer)
		}
		writes := 0
		var sites []kit.Site
		sites = append(sites, c.CallSites(pieceWrite)...)
		for _, s := range c.CallSites(writeAt) {
			if inPkg(s.Fn, c, "internal/piecewriter") {
				sites = append(sites, s)
			}
		}
		for _, s := range sortSites(sites) {
			if s.Fn.Synthetic != "" {
				continue
			}
			ins := s.Instr
			writes++
			key := k.key(s.Fn, "write")
			if !hashOK.Holds(ins, 2) {
				c.Bad("R01.2", key, posOf(ins), "Piece.Data.Write is reachable without HashOK==true: unverified bytes can reach the files")
				continue
			}
			// the bytes written are w.Buffer.Data (possibly handed to a helper as an argument)
			av := argOf(kit.CallOf(ins), 1)
			if !c.HoldsForValue(av, 2, isBufData) {
				c.Bad("R01.2", key, posOf(ins), "bytes written (%s) are not the writer's Buffer.Data", kit.Canon(av))
				continue
			}
			c.OK("R01.2", key, posOf(ins), "write dominated by HashOK==true; bytes written = %s", kit.Canon(av))
		}
		c.Floor("R01.2", "calls of filesection.Piece.Write", writes, 1)
		// HashOK stores
		stores := 0
		for _, st := range fieldStores(c, fHashOK) {
			stores++
			key := k.key(st.Fn, "store HashOK")
			v := kit.Canon(st.Val)
			if v.IsConstBool(false) {
				c.Present("R01.2", key, posOf(st.Store), "HashOK cleared")
				continue
			}
			if v.IsCallTo(verifyHash) && len(v.Args) >= 2 && v.Args[1].IsField(fBufData) && v.Args[1].Base().IsField(fPWBuffer) {
				c.OK("R01.2", key, posOf(st.Store), "HashOK = VerifyHash(%s): same access path as the bytes written", v.Args[1])
			} else {
				c.Bad("R01.2", key, posOf(st.Store), "HashOK assigned from %s, not from VerifyHash over Buffer.Data", v)
			}
		}
		c.Floor("R01.2", "stores to HashOK", stores, 1)
		// no store to Buffer / Data between verify and write: none in Run (and
		// the helpers it calls) at all
		bad := false
		runFns := c.FuncsDeep(pwRun, 2, false)
		for _, fn := range runFns {
			kit.Instrs(fn, func(ins ssa.Instruction) {
				if _, isCall := ins.(*ssa.Call); isCall {
					return // callee effects: Buffer is a value field of w; only direct stores / copy matter
				}
				if c.KillsField(ins, fBufData) || c.KillsField(ins, fPWBuffer) {
					bad = true
					c.Bad("R01.2", k.key(fn, "store Buffer"), posOf(ins), "writer re-assigns its buffer between hash check and write")
				}
			})
		}
		if !bad {
			c.OK("R01.2", kit.FuncName(pwRun)+"/buffer-stable", pwRun.Pos(), "no store to PieceWriter.Buffer / Buffer.Data inside Run")
		}
		// nothing in Run writes *into* the buffer bytes (copy, io.ReadFull...)
		for _, fn := range runFns {
			checkNoByteWritesInto(c, k, "R01.2", fn, func(e *kit.Expr) bool {
				return e.Mentions(func(x *kit.Expr) bool { return x.IsField(fBufData) })
			})
		}
	}

	// ---- R01.3 VerifyHash means what it says
	{
		vh := c.Func("internal/piece", "(*Piece).VerifyHash")
		fHash := c.Field("internal/piece", "Piece", "Hash")
		fLength := c.Field("internal/piece", "Piece", "Length")
		bytesEqual := c.FuncObj("bytes", "Equal")
		bufParam := vh.Params[1]
		hParam := vh.Params[2]
		lenEq := c.AtomFlow(vh, func(a kit.Atom) bool {
			if a.Op != token.EQL {
				return false
			}
			l, r := a.L.Strip(), a.R.Strip()
			isLen := func(e *kit.Expr) bool { return e.Kind == "len" && e.Args[0].V == ssa.Value(bufParam) }
			isF := func(e *kit.Expr) bool { return e.IsField(fLength) }
			return (isLen(l) && isF(r)) || (isLen(r) && isF(l))
		}, func(ins ssa.Instruction) bool { return c.KillsField(ins, fLength) })
		wrote := (&kit.Flow{P: c.Prog, Fn: vh, Instr: func(ins ssa.Instruction, in bool) bool {
			if cc := kit.CallOf(ins); cc != nil && cc.IsInvoke() && cc.Method.Name() == "Write" && cc.Value == ssa.Value(hParam) {
				return len(cc.Args) == 1 && cc.Args[0] == ssa.Value(bufParam)
			}
			if cc := kit.CallOf(ins); cc != nil && cc.IsInvoke() && cc.Method.Name() == "Reset" && cc.Value == ssa.Value(hParam) {
				return false
			}
			return in
		}}).Solve()
		n := 0
		for _, r := range returnsOf(vh) {
			for _, src := range boolSources(r.Results[0]) {
				e := kit.Canon(src.V)
				if e.IsConstBool(false) {
					continue
				}
				n++
				key := k.key(vh, "return-may-be-true")
				at := src.At
				if at == nil {
					at = r
				}
				okShape := e.IsCallTo(bytesEqual) && len(e.Args) == 2
				var sumArg *kit.Expr
				if okShape {
					for i := 0; i < 2; i++ {
						if e.Args[i].IsField(fHash) {
							sumArg = e.Args[1-i]
						}
					}
				}
				if sumArg == nil || !(sumArg.Kind == "call" && sumArg.Name == "Sum" && sumArg.Args[0].V == ssa.Value(hParam)) {
					c.Bad("R01.3", key, posOf(r), "VerifyHash may return true from %s, which is not bytes.Equal(h.Sum(..), p.Hash)", e)
					continue
				}
				sumCall := sumArg.V.(*ssa.Call)
				if !wrote.Before(sumCall) {
					c.Bad("R01.3", key, posOf(r), "h.Sum is not preceded on every path by h.Write(buf) over the whole buffer")
					continue
				}
				if !lenEq.Before(at) {
					c.Bad("R01.3", key, posOf(r), "true-capable return is not dominated by len(buf)==p.Length: a short/long buffer could verify")
					continue
				}
				c.OK("R01.3", key, posOf(r), "returns bytes.Equal(h.Sum(nil), p.Hash) after h.Write(buf) under len(buf)==p.Length")
			}
		}
		c.Floor("R01.3", "true-capable returns of VerifyHash", n, 1)
		// hasher freshness at every call site
		sha1New := c.FuncObj("crypto/sha1", "New")
		sites := 0
		for _, s := range sortSites(c.CallSites(verifyHash)) {
			sites++
			key := k.key(s.Fn, "call VerifyHash")
			harg := argOf(s.Instr.Common(), 2)
			he := kit.Canon(harg)
			_ = he
			fresh := (&kit.Flow{P: c.Prog, Fn: s.Fn, Instr: func(ins ssa.Instruction, in bool) bool {
				if v, ok := ins.(ssa.Value); ok && v == harg {
					if kit.Canon(v).IsCallTo(sha1New) {
						return true
					}
				}
				cc := kit.CallOf(ins)
				if cc == nil {
					return in
				}
				if cc.IsInvoke() && cc.Value == harg {
					return cc.Method.Name() == "Reset"
				}
				if kit.CalleeObj(cc) == verifyHash {
					return false
				}
				for _, a := range cc.Args {
					if a == harg {
						return false
					}
				}
				return in
			}}).Solve()
			if fresh.Before(s.Instr) {
				c.OK("R01.3", key, posOf(s.Instr), "hasher is freshly created or Reset on every path to this call")
			} else {
				c.Bad("R01.3", key, posOf(s.Instr), "hasher passed to VerifyHash may carry state from a previous piece (no Reset on some path)")
			}
		}
		c.Floor("R01.3", "VerifyHash call sites", sites, 2)
	}

	// ---- R01.10 write errors are not masked (Done/bit only after a *successful* write)
	checkWriteErrorDiscipline(c, k, "R01.10")
	checkWriterRecordsError(c, k, "R01.10")

	runC01Marks(c, k, fHashOK, fError, verifyHash)
	runC01Rest(c, k, fHashOK)
}

func checkPieceWriteCaller(c *kit.Ctx, k *keyer, cf *ssa.Function, site ssa.CallInstruction, pwRun *ssa.Function) {
	key := k.key(cf, "calls filesection.Piece.Write")
	pos := cf.Pos()
	if site != nil {
		pos = posOf(site)
	}
	if cf == pwRun {
		c.Present("R01.1", key, pos, "Piece.Write called from PieceWriter.Run")
		return
	}
	if c.OnlyReachedVia(cf, 2, pwRun) {
		c.Present("R01.1", key, pos, "Piece.Write called from %s, which is only reached through PieceWriter.Run", kit.FuncName(cf))
		return
	}
	c.Bad("R01.1", key, pos, "filesection.Piece.Write may be called from %s (call graph), outside PieceWriter.Run", kit.FuncName(cf))
}

// boolSrc is one possible source of a boolean value with the program point
// at which path facts must be evaluated.
type boolSrc struct {
	V  ssa.Value
	At ssa.Instruction // last instruction of the block the value flows from
}

// boolSources expands phis: each incoming value with the terminator of its
// predecessor block.
func boolSources(v ssa.Value) []boolSrc {
	var out []boolSrc
	seen := map[ssa.Value]bool{}
	var walk func(v ssa.Value, at ssa.Instruction)
	walk = func(v ssa.Value, at ssa.Instruction) {
		if phi, ok := v.(*ssa.Phi); ok && !seen[v] {
			seen[v] = true
			for i, e := range phi.Edges {
				pred := phi.Block().Preds[i]
				walk(e, pred.Instrs[len(pred.Instrs)-1])
			}
			return
		}
		out = append(out, boolSrc{v, at})
	}
	var at ssa.Instruction
	if ins, ok := v.(ssa.Instruction); ok {
		at = ins
	}
	walk(v, at)
	return out
}

// checkNoByteWritesInto flags copy()/io.ReadFull/... whose destination
// matches dst inside fn.
func checkNoByteWritesInto(c *kit.Ctx, k *keyer, rule string, fn *ssa.Function, dst func(*kit.Expr) bool) {
	kit.Instrs(fn, func(ins ssa.Instruction) {
		cc := kit.CallOf(ins)
		if cc == nil {
			return
		}
		var d ssa.Value
		if b, ok := cc.Value.(*ssa.Builtin); ok && (b.Name() == "copy" || b.Name() == "clear") {
			d = cc.Args[0]
		} else if fn := cc.StaticCallee(); fn != nil && fn.Pkg != nil {
			switch fn.Pkg.Pkg.Path() + "." + fn.Name() {
			case "io.ReadFull", "io.ReadAtLeast":
				d = cc.Args[1]
			case "crypto/rand.Read", "math/rand.Read":
				d = cc.Args[0]
			}
		}
		if d != nil && dst(kit.Canon(d)) {
			c.Bad(rule, k.key(fn, "byte-write"), posOf(ins), "bytes of the verified buffer are overwritten by %s", kit.Canon(ins.(ssa.Value)))
		}
	})
}

var _ = types.Typ

package rules

import (
	"go/constant"
	"go/token"
	"go/types"

	"golang.org/x/tools/go/ssa"

	"rainverif/checker/kit"
)

func init() {
	register(&Property{
		ID: "C05",
		Explanation: "Decides the ordering chain 'durable write -> bit set -> bit persisted' as path/shape facts: (R05.1) every os.OpenFile in filestorage carries O_SYNC|O_RDWR in every build configuration and flag helpers only add bits; (R05.2) the writer's result is sent only after Piece.Write returned (or HashOK is false) and Error is that call's error; (R05.3) every value persisted under the bitfield key / through WriteBitfield / into Spec.Bitfield outside the codec originates from Bytes() of torrent.bitfield; (R05.4) resume bits are copied into Piece.Done only under HasMissing==false, the allocator marks HasMissing whenever Open reports a non-existing file, and downloading starts without verification only if (bitfield!=nil && !HasMissing) or !HasExisting; (R05.5) Torrent.Verify deletes the persisted bitfield before it sends the verify command; (R05.6) every bbolt bucket mutation is executed only inside a DB.Update transaction closure. NOT decided: behaviour at each crash instant, bbolt atomicity and the kernel honouring O_SYNC (trusted).",
		RuleText:      commonRuleText,
		Assumptions:   append([]string{"bbolt commits an Update closure atomically; a write on an O_SYNC descriptor is durable when it returns"}, commonAssumptions...),
		Run:           runC05,
		ArchSensitive: true,
	})
}

// mustBits computes the set of bits certainly set in an int flag value.
func mustBits(c *kit.Ctx, v ssa.Value, depth int) int64 {
	if depth > 8 {
		return 0
	}
	switch x := v.(type) {
	case *ssa.Const:
		if x.Value != nil && x.Value.Kind() == constant.Int {
			n, _ := constant.Int64Val(x.Value)
			return n
		}
	case *ssa.BinOp:
		a, b := mustBits(c, x.X, depth+1), mustBits(c, x.Y, depth+1)
		switch x.Op {
		case token.OR:
			return a | b
		case token.AND:
			return a & b
		case token.AND_NOT:
			if k, ok := x.Y.(*ssa.Const); ok && k.Value != nil {
				n, _ := constant.Int64Val(k.Value)
				return a &^ n
			}
			return 0
		}
	case *ssa.Phi:
		r := int64(-1)
		for _, e := range x.Edges {
			if e == v {
				continue
			}
			r &= mustBits(c, e, depth+1)
		}
		if r == -1 {
			return 0
		}
		return r
	case *ssa.Convert:
		return mustBits(c, x.X, depth+1)
	case *ssa.ChangeType:
		return mustBits(c, x.X, depth+1)
	case *ssa.Parameter:
		// the flag word is computed by the caller and handed to a helper: the
		// bits certainly set are those set in the argument at every static call
		// site (none if the helper's callers cannot be enumerated)
		args, ok := c.ArgsOfParam(x)
		if !ok {
			return 0
		}
		r := int64(-1)
		for _, a := range args {
			r &= mustBits(c, a, depth+2)
		}
		if r == -1 {
			return 0
		}
		return r
	case *ssa.Call:
		fn := x.Call.StaticCallee()
		if fn == nil || fn.Blocks == nil || !kit.InModule(pkgOf(fn)) {
			return 0
		}
		// helper: every return is a function of its parameters
		r := int64(-1)
		for _, ret := range returnsOf(fn) {
			if len(ret.Results) != 1 {
				return 0
			}
			r &= mustBitsWithParams(c, ret.Results[0], fn, x.Call.Args, depth+1)
		}
		if r == -1 {
			return 0
		}
		return r
	}
	return 0
}

func mustBitsWithParams(c *kit.Ctx, v ssa.Value, fn *ssa.Function, args []ssa.Value, depth int) int64 {
	if p, ok := v.(*ssa.Parameter); ok {
		for i, q := range fn.Params {
			if q == p && i < len(args) {
				return mustBits(c, args[i], depth+1)
			}
		}
		return 0
	}
	if b, ok := v.(*ssa.BinOp); ok {
		x, y := mustBitsWithParams(c, b.X, fn, args, depth+1), mustBitsWithParams(c, b.Y, fn, args, depth+1)
		switch b.Op {
		case token.OR:
			return x | y
		case token.AND:
			return x & y
		case token.AND_NOT:
			if k, ok := b.Y.(*ssa.Const); ok && k.Value != nil {
				n, _ := constant.Int64Val(k.Value)
				return x &^ n
			}
			return 0
		}
		return 0
	}
	if phi, ok := v.(*ssa.Phi); ok {
		r := int64(-1)
		for _, e := range phi.Edges {
			r &= mustBitsWithParams(c, e, fn, args, depth+1)
		}
		return r
	}
	return mustBits(c, v, depth)
}

func constIntOf(c *kit.Ctx, pkg, name string) int64 {
	k := c.Const(pkg, name)
	n, _ := constant.Int64Val(k.Val())
	return n
}

func runC05(c *kit.Ctx) {
	k := newKeyer()

	// ---- R05.1 O_SYNC on every data-file open
	{
		openFile := c.FuncObj("os", "OpenFile")
		oSync, oRdwr := constIntOf(c, "os", "O_SYNC"), constIntOf(c, "os", "O_RDWR")
		n := 0
		for _, s := range sortSites(c.CallSites(openFile)) {
			if !inPkg(s.Fn, c, "internal/storage/filestorage") {
				continue
			}
			n++
			key := k.key(s.Fn, "os.OpenFile")
			bits := mustBits(c, s.Instr.Common().Args[1], 0)
			switch {
			case bits&oSync != oSync:
				c.Bad("R05.1", key, posOf(s.Instr), "data file opened without O_SYNC on some path (must-bits %#x): a returned write is not durable, persisted bits can run ahead of disk", bits)
			case bits&oRdwr != oRdwr:
				c.Bad("R05.1", key, posOf(s.Instr), "data file opened without O_RDWR (must-bits %#x)", bits)
			default:
				c.OK("R05.1", key, posOf(s.Instr), "flag argument certainly contains O_SYNC|O_RDWR (must-bits %#x)", bits)
			}
		}
		c.Floor("R05.1", "os.OpenFile sites in filestorage", n, 2)
		// no other way to obtain a writable data file in filestorage
		for _, name := range []string{"Create", "CreateTemp", "NewFile"} {
			for _, s := range c.CallSites(c.FuncObj("os", name)) {
				if inPkg(s.Fn, c, "internal/storage/filestorage") {
					c.Bad("R05.1", k.key(s.Fn, "os."+name), posOf(s.Instr), "data file obtained through os.%s (no O_SYNC)", name)
				}
			}
		}
	}

	// ---- R05.2 result after write
	{
		run := c.Func("internal/piecewriter", "(*PieceWriter).Run")
		fHashOK := c.Field("internal/piecewriter", "PieceWriter", "HashOK")
		fError := c.Field("internal/piecewriter", "PieceWriter", "Error")
		pieceWrite := c.FuncObj("internal/filesection", "Piece.Write")
		// "Piece.Write has returned, or HashOK is false": keyed on the callee object
		// and the field, so the write and the delivery may each sit in a helper of
		// Run (callee summaries + a walk from Run in Run's own context)
		done := &kit.Spec{P: c.Prog, Deep: kit.DefaultDeep,
			Edge: func(a kit.Atom) bool { return a.IsFalse(func(e *kit.Expr) bool { return e.IsField(fHashOK) }) },
			Instr: func(ins ssa.Instruction, in bool) bool {
				if kit.CallsAny(ins, pieceWrite) {
					return true
				}
				return in
			}}
		n := 0
		done.VisitDown(run, false, 2, func(ins ssa.Instruction, before bool) {
			if !isResultDelivery(c, ins) {
				return
			}
			n++
			c.Check(before, "R05.2", k.key(ins.Parent(), "deliver result"), posOf(ins),
				"result delivered only after Piece.Write returned (or HashOK==false)", "writer can deliver its result before the file write has returned")
		})
		c.Floor("R05.2", "result deliveries in PieceWriter.Run", n, 1)
		ns := 0
		for _, st := range fieldStores(c, fError) {
			ns++
			v := kit.Canon(st.Val)
			ok := v.Kind == "extract" && v.Idx == 1 && v.Args[0].IsCallTo(pieceWrite)
			c.Check(ok, "R05.2", k.key(st.Fn, "store PieceWriter.Error"), posOf(st.Store),
				"Error is the error result of Piece.Write", "PieceWriter.Error assigned from "+v.String()+", not from Piece.Write's error: a failed write could look successful")
		}
		// every Piece.Write (wherever the writer calls it) has its error stored into w.Error
		nw := 0
		for _, s := range sortSites(c.CallSites(pieceWrite)) {
			call, ok := s.Instr.(*ssa.Call)
			if !ok || s.Fn.Synthetic != "" {
				continue
			}
			nw++
			stored := false
			for _, r := range *call.Referrers() {
				ex, ok := r.(*ssa.Extract)
				if !ok || ex.Index != 1 {
					continue
				}
				for _, r2 := range *ex.Referrers() {
					if st, ok := r2.(*ssa.Store); ok {
						if _, isErr := kit.StoresField(st, fError); isErr {
							stored = true
						}
					}
				}
			}
			c.Check(stored, "R05.2", k.key(s.Fn, "write error kept"), posOf(call),
				"the error of Piece.Write is stored into PieceWriter.Error", "the error result of Piece.Write is dropped: a failed write would be reported as success and its bit set and persisted")
		}
		c.Floor("R05.2", "calls of filesection.Piece.Write", nw, 1)
	}

	// ---- R05.7 a failed section write is never masked by a later one, nor filtered by the writer
	checkWriteErrorDiscipline(c, k, "R05.7")
	checkWriterRecordsError(c, k, "R05.7")

	// ---- R05.3 what may be persisted as the bitfield
	{
		fTBitfield := c.Field("torrent", "torrent", "bitfield")
		bfBytes := c.FuncObj("internal/bitfield", "(*Bitfield).Bytes")
		writeBF := c.FuncObj("internal/resumer/boltdbresumer", "(*Resumer).WriteBitfield")
		put := c.FuncObj("go.etcd.io/bbolt", "(*Bucket).Put")
		fSpecBF := c.Field("internal/resumer/boltdbresumer", "Spec", "Bitfield")
		keysVar := c.Global("internal/resumer/boltdbresumer", "Keys")
		writeBFfn := c.Func("internal/resumer/boltdbresumer", "(*Resumer).WriteBitfield")
		fromTorrentE := func(e *kit.Expr) bool {
			return e.IsCallTo(bfBytes) && e.Args[0].IsField(fTBitfield)
		}
		// the persisted value is Bytes() of the torrent bitfield, directly or as
		// the argument bound to a helper's parameter at every call site
		fromTorrentV := func(v ssa.Value) bool {
			return c.HoldsForValue(v, 2, func(x ssa.Value) bool { return fromTorrentE(kit.Canon(x)) })
		}
		isBitfieldKey := func(e *kit.Expr) bool {
			e = e.Strip()
			if e.Kind == "field" && e.Field.Name() == "Bitfield" && e.Base().Kind == "global" && e.Base().Obj == types.Object(keysVar) {
				return true
			}
			if e.Kind == "const" && e.Const != nil && e.Const.Kind() == constant.String && constant.StringVal(e.Const) == "bitfield" {
				return true
			}
			return false
		}
		n := 0
		for _, s := range sortSites(c.CallSites(writeBF)) {
			n++
			v := kit.Canon(argOf(s.Instr.Common(), 2))
			c.Check(fromTorrentV(argOf(s.Instr.Common(), 2)), "R05.3", k.key(s.Fn, "WriteBitfield"), posOf(s.Instr),
				"persists "+v.String(), "WriteBitfield persists "+v.String()+", which is not Bytes() of the in-memory torrent bitfield")
		}
		for _, s := range sortSites(c.CallSites(put)) {
			if !isBitfieldKey(kit.Canon(argOf(s.Instr.Common(), 1))) {
				continue
			}
			n++
			key := k.key(s.Fn, "Put bitfield key")
			v := kit.Canon(argOf(s.Instr.Common(), 2))
			switch {
			case fromTorrentV(argOf(s.Instr.Common(), 2)):
				c.OK("R05.3", key, posOf(s.Instr), "persists %s", v)
			case v.IsField(fSpecBF) && inPkg(s.Fn, c, "internal/resumer/boltdbresumer"):
				c.OK("R05.3", key, posOf(s.Instr), "persists Spec.Bitfield (whose initialisers are checked)")
			case fnIn(s.Fn, writeBFfn) && (v.Kind == "freevar" || v.Kind == "param" || v.Kind == "deref"):
				c.OK("R05.3", key, posOf(s.Instr), "persists WriteBitfield's argument (whose call sites are checked)")
			default:
				c.Bad("R05.3", key, posOf(s.Instr), "value stored under the bitfield key (%s) does not originate from the in-memory torrent bitfield", v)
			}
		}
		for _, st := range fieldStores(c, fSpecBF) {
			if inPkg(st.Fn, c, "internal/resumer/boltdbresumer") {
				continue // codec (C14)
			}
			n++
			v := kit.Canon(st.Val)
			c.Check(fromTorrentV(st.Val), "R05.3", k.key(st.Fn, "init Spec.Bitfield"), posOf(st.Store),
				"Spec.Bitfield = "+v.String(), "Spec.Bitfield initialised from "+v.String()+", not from the in-memory torrent bitfield")
		}
		c.Floor("R05.3", "bitfield persistence sites", n, 4)
	}

	// ---- R05.4 resume bits trusted only if nothing is missing
	{
		h := c.Func("torrent", "(*torrent).handleAllocationDone")
		fDone := c.Field("internal/piece", "Piece", "Done")
		fHasMissing := c.Field("internal/allocator", "Allocator", "HasMissing")
		fHasExisting := c.Field("internal/allocator", "Allocator", "HasExisting")
		fAErr := c.Field("internal/allocator", "Allocator", "Error")
		fTBitfield := c.Field("torrent", "torrent", "bitfield")
		// The three facts are field-keyed; they are evaluated on a walk from the
		// handler through its helpers in the handler's calling context, so the
		// trusted-resume loop or the start calls may be moved into helpers.
		noMissing := c.FieldBoolSpec(fHasMissing, false, kit.DefaultDeep)
		noExisting := c.FieldBoolSpec(fHasExisting, false, kit.DefaultDeep)
		haveBF := c.FieldNilSpec(fTBitfield, false, kit.DefaultDeep)
		starts := []*types.Func{c.FuncObj("torrent", "(*torrent).startPieceDownloaders"), c.FuncObj("torrent", "(*torrent).startAnnouncers"), c.FuncObj("torrent", "(*torrent).startAcceptor")}
		n, ns := 0, 0
		// (every module callee is entered, in the handler's context: a filter
		// "helpers of the handler only" would miss a start helper shared with
		// the verification-done handler, e.g. startNetworking())
		for _, vis := range kit.VisitDownAll(h, 2, nil, noMissing, noExisting, haveBF) {
			ins := vis.Ins
			if v, ok := kit.StoresField(ins, fDone); ok && !kit.Canon(v).IsConstBool(false) {
				n++
				c.Check(vis.Facts[0], "R05.4", k.key(ins.Parent(), "trust resume bit"), posOf(ins),
					"resume bits copied into Piece.Done only under al.HasMissing==false", "resume bitfield trusted although a file may be missing")
			}
			if kit.CallsAny(ins, starts...) {
				ns++
				ok := (vis.Facts[0] && vis.Facts[2]) || vis.Facts[1]
				c.Check(ok, "R05.4", k.key(ins.Parent(), "start without verify"), posOf(ins),
					"transfer starts without verification only if (bitfield!=nil && !HasMissing) or !HasExisting", "transfer can start without verification although existing files were found and the resume bitfield is not trusted")
			}
		}
		c.Floor("R05.4", "trusted-resume stores", n, 1)
		c.Floor("R05.4", "start calls in handleAllocationDone", ns, 6)
		// allocator: Open that reports !exists is followed by HasMissing=true.
		// "no unrecorded missing file is pending" (entry true): opened by a
		// Storage.Open call, closed by exists==true / Error!=nil / HasMissing=true.
		// Checked in every function of the allocator that calls Storage.Open
		// (each must discharge before its next Open and before it returns) and,
		// with callee summaries, in Allocator.Run.
		run := c.Func("internal/allocator", "(*Allocator).Run")
		stoOpen := c.FuncObj("internal/storage", "Storage.Open")
		missingFlow := func(fn *ssa.Function) *kit.Flow {
			return (&kit.Flow{P: c.Prog, Fn: fn, Entry: true,
				Edge: func(a kit.Atom) bool {
					if a.IsTrue(func(e *kit.Expr) bool { return e.Kind == "extract" && e.Idx == 1 && e.Args[0].IsCallTo(stoOpen) }) {
						return true
					}
					return a.IsNilCmp(false, func(e *kit.Expr) bool { return e.IsField(fAErr) })
				},
				Instr: func(ins ssa.Instruction, in bool) bool {
					if kit.CallsAny(ins, stoOpen) {
						return false
					}
					if v, ok := kit.StoresField(ins, fHasMissing); ok {
						return kit.Canon(v).IsConstBool(true)
					}
					return in
				}}).WithDeep(kit.DefaultDeep, nil).Solve()
		}
		nOpen := 0
		okAll := len(missingFlow(run).FailingReturns()) == 0
		seenFn := map[*ssa.Function]bool{}
		for _, s := range sortSites(c.CallSites(stoOpen)) {
			if _, isCall := s.Instr.(*ssa.Call); !isCall {
				continue
			}
			nOpen++
			fl := missingFlow(s.Fn)
			if !fl.Before(s.Instr) {
				okAll = false
			}
			if !seenFn[s.Fn] {
				seenFn[s.Fn] = true
				if len(fl.FailingReturns()) != 0 {
					okAll = false
				}
				if !c.OnlyReachedVia(s.Fn, 3, run) {
					c.Bad("R05.4", k.key(s.Fn, "Storage.Open outside the allocator"), posOf(s.Instr), "Storage.Open called from %s, which is not (only) reached through Allocator.Run: existence of the file is not recorded in HasMissing / HasExisting", kit.FuncName(s.Fn))
				}
			}
		}
		c.Check(okAll && nOpen > 0, "R05.4", kit.FuncName(run)+"/missing-marked", run.Pos(),
			"after every Storage.Open: exists==true, or Error!=nil, or HasMissing=true before the next Open / return", "a file reported as not existing can go unrecorded (HasMissing not set): its resume bits would be trusted")
		c.Floor("R05.4", "Storage.Open calls", nOpen, 1)
		for _, st := range fieldStores(c, fHasMissing) {
			if !inPkg(st.Fn, c, "internal/allocator") {
				c.Bad("R05.4", k.key(st.Fn, "store HasMissing"), posOf(st.Store), "HasMissing written outside package allocator")
			} else if !kit.Canon(st.Val).IsConstBool(true) {
				c.Bad("R05.4", k.key(st.Fn, "store HasMissing"), posOf(st.Store), "HasMissing reset inside the allocator")
			}
		}
	}

	// ---- R05.5 manual verify forgets persisted bits first
	{
		v := c.Func("torrent", "(*Torrent).Verify")
		dbUpdate := c.FuncObj("go.etcd.io/bbolt", "(*DB).Update")
		del := c.FuncObj("go.etcd.io/bbolt", "(*Bucket).Delete")
		tVerify := c.FuncObj("torrent", "(*torrent).Verify")
		deleted := (&kit.Flow{P: c.Prog, Fn: v, Instr: func(ins ssa.Instruction, in bool) bool {
			if kit.CallsAny(ins, dbUpdate) {
				cl := kit.Canon(argOf(kit.CallOf(ins), 1))
				if cl.Fn != nil {
					found := false
					kit.Instrs(cl.Fn, func(i2 ssa.Instruction) {
						if kit.CallsAny(i2, del) {
							ke := kit.Canon(argOf(kit.CallOf(i2), 1)).Strip()
							if s, ok := constString(ke); ok && s == "bitfield" {
								found = true
							}
							if ke.Kind == "field" && ke.Field.Name() == "Bitfield" {
								found = true
							}
						}
					})
					if found {
						return true
					}
				}
			}
			return in
		}}).WithDeep(kit.DefaultDeep, nil).Solve()
		n := 0
		kit.Instrs(v, func(ins ssa.Instruction) {
			if kit.CallsAny(ins, tVerify) {
				n++
				c.Check(deleted.Before(ins), "R05.5", k.key(v, "send verify"), posOf(ins),
					"persisted bitfield deleted (DB.Update) before the verify command is sent", "verify command sent without first deleting the persisted bitfield: a crash during verification would trust stale bits")
			}
		})
		c.Floor("R05.5", "verify command sends", n, 1)
	}

	// ---- R05.6 one transaction per update
	{
		n := 0
		memo := map[*ssa.Function]int{}
		var inTx func(fn *ssa.Function, depth int) bool
		inTx = func(fn *ssa.Function, depth int) bool {
			if v, ok := memo[fn]; ok {
				return v == 1
			}
			memo[fn] = 1 // optimistic for recursion
			edges := c.CallersOf(fn)
			ok := len(edges) > 0 && depth < 6
			for _, e := range edges {
				cf := e.Caller.Func
				p := pkgOf(cf)
				if p == "go.etcd.io/bbolt" {
					continue
				}
				if kit.InModule(p) && inTx(cf, depth+1) {
					continue
				}
				ok = false
			}
			if ok {
				memo[fn] = 1
			} else {
				memo[fn] = 2
			}
			return ok
		}
		for _, m := range []string{"(*Bucket).Put", "(*Bucket).Delete", "(*Bucket).DeleteBucket", "(*Bucket).CreateBucket", "(*Bucket).CreateBucketIfNotExists", "(*Tx).CreateBucketIfNotExists", "(*Tx).CreateBucket", "(*Tx).DeleteBucket"} {
			obj := c.FuncObj("go.etcd.io/bbolt", m)
			for _, s := range sortSites(c.CallSites(obj)) {
				n++
				c.Check(inTx(s.Fn, 0), "R05.6", k.key(s.Fn, "bbolt "+m), posOf(s.Instr),
					"mutation runs only inside a closure executed by bbolt (DB.Update)", "bbolt mutation in "+kit.FuncName(s.Fn)+" is reachable outside a DB.Update closure")
			}
		}
		c.Floor("R05.6", "bbolt mutation sites", n, 40)
		// no manual transactions
		for _, m := range []string{"(*DB).Begin"} {
			for _, s := range c.CallSites(c.FuncObj("go.etcd.io/bbolt", m)) {
				c.Bad("R05.6", k.key(s.Fn, "bbolt "+m), posOf(s.Instr), "manual transaction: commit/rollback pairing is not checked")
			}
		}
	}
}

func constString(e *kit.Expr) (string, bool) {
	e = e.Strip()
	if e != nil && e.Kind == "const" && e.Const != nil && e.Const.Kind() == constant.String {
		return constant.StringVal(e.Const), true
	}
	return "", false
}

package rules

import (
	"go/constant"
	"go/token"
	"go/types"

	"golang.org/x/tools/go/ssa"

	"rainverif/checker/kit"
)

// ---- R12.3 incoming -------------------------------------------------------------

func (x *c12) incoming() {
	c, k, fn := x.c, x.k, x.accept
	F := newBoolParam(fn, "forceEncryption")
	c.Check(!F.reassigned(), "R12.3", kit.FuncName(fn)+"/param forceEncryption not re-assigned", F.P.Pos(),
		"forceEncryption is never written inside Accept or its closures", "forceEncryption is written inside Accept: the configured policy can be overridden")

	// the MSE responder handshake and its crypto_select callback
	var hs *ssa.Call
	nHS := 0
	kit.Instrs(fn, func(ins ssa.Instruction) {
		if call, ok := ins.(*ssa.Call); ok && kit.CalleeObj(&call.Call) == x.hsIn {
			hs = call
			nHS++
		}
	})
	c.Floor("R12.3", "HandshakeIncoming call in Accept", nHS, 1)
	if nHS != 1 {
		if nHS > 1 {
			c.Bad("R12.3", kit.FuncName(fn)+"/single HandshakeIncoming", fn.Pos(), "Accept contains %d HandshakeIncoming calls: the rule is written for one", nHS)
		}
		return
	}
	getSKey, _ := argOf(&hs.Call, 1).(*ssa.Parameter)
	mc, _ := argOf(&hs.Call, 2).(*ssa.MakeClosure)
	if getSKey == nil || mc == nil {
		panic(kit.AnchorError{Msg: "Accept: HandshakeIncoming is not called with the getSKey parameter and a closure literal"})
	}
	cb := mc.Fn.(*ssa.Function)
	// the closure is used for nothing else
	onlyHS := true
	for _, r := range *mc.Referrers() {
		if _, dbg := r.(*ssa.DebugRef); !dbg && r != ssa.Instruction(hs) {
			onlyHS = false
		}
	}
	c.Check(onlyHS, "R12.3", k.key(fn, "crypto_select closure only passed to HandshakeIncoming"), posOf(hs),
		"the crypto_select closure is used only as the argument of HandshakeIncoming",
		"the crypto_select closure is also used elsewhere: 'isEncrypted implies an MSE handshake ran' no longer follows")

	// isEncrypted: the bool local of Accept (other than the spilled
	// forceEncryption) that the callback assigns
	var enc *ssa.Alloc
	for _, f := range kit.WithAnon(cb) {
		kit.Instrs(f, func(ins ssa.Instruction) {
			st, ok := ins.(*ssa.Store)
			if !ok {
				return
			}
			a, ok := cellRoot(st.Addr).(*ssa.Alloc)
			if !ok || a.Parent() != fn || a == F.Cell {
				return
			}
			if b, isB := st.Val.Type().Underlying().(*types.Basic); !isB || b.Kind() != types.Bool {
				return
			}
			if enc != nil && enc != a {
				panic(kit.AnchorError{Msg: "Accept: the crypto_select callback sets two bool locals"})
			}
			enc = a
		})
	}
	if enc == nil {
		panic(kit.AnchorError{Msg: "Accept: no bool local assigned by the crypto_select callback (isEncrypted)"})
	}
	isEnc := func(e *kit.Expr) bool { return derefOfCell(e, enc) }

	// calls after which isEncrypted may have changed: those that can reach the callback
	reachCB := map[ssa.Instruction]bool{}
	kit.Instrs(fn, func(ins ssa.Instruction) {
		ci, ok := ins.(*ssa.Call)
		if !ok {
			return
		}
		if _, isB := ci.Call.Value.(*ssa.Builtin); isB {
			return
		}
		callees := c.Callees(ci)
		if len(callees) == 0 {
			reachCB[ins] = true // unresolved dynamic call
			return
		}
		r := c.Reach(callees, true, nil)
		for _, f := range kit.WithAnon(cb) {
			if r[f] {
				reachCB[ins] = true
			}
		}
	})
	encKill := func(ins ssa.Instruction) bool {
		if st, ok := ins.(*ssa.Store); ok && st.Addr == ssa.Value(enc) {
			return true
		}
		return reachCB[ins]
	}
	gGen := func(a kit.Atom) bool { return a.IsFalse(F.is) || a.IsTrue(isEnc) }
	encOK := &kit.Flow{P: c.Prog, Fn: fn, Edge: gGen}
	encOK.Instr = func(ins ssa.Instruction, in bool) bool {
		if in && encKill(ins) {
			// a store of constant true keeps the fact; anything else drops it
			if st, ok := ins.(*ssa.Store); ok && kit.Canon(st.Val).IsConstBool(true) {
				return true
			}
			return false
		}
		return in
	}
	encOK.Solve()

	// (a) success return
	ef := newErrFacts(c, fn)
	errIdx := fn.Signature.Results().Len() - 1
	succ := ef.successReturns(errIdx)
	cs := &connSafety{x: x, fn: fn, G: encOK, gGen: gGen, gKill: encKill, d: map[*ssa.Alloc]*kit.Flow{}, busy: map[*ssa.Alloc]bool{}}
	hsNotYet := c.Pending(fn, func(ins ssa.Instruction) bool { return ins == ssa.Instruction(hs) }, func(ssa.Instruction) bool { return false })
	for _, r := range succ {
		key := k.key(fn, "return with possibly-nil error")
		if !encOK.Before(r) {
			c.Bad("R12.3", key, posOf(r), "Accept may return a nil error on a path where neither forceEncryption==false nor isEncrypted==true is established: a plaintext incoming connection is accepted although encryption is forced")
			continue
		}
		// once the MSE handshake ran, the connection handed out is the wrapper
		okConn, why := true, ""
		var walk func(v ssa.Value, at ssa.Instruction, seen map[ssa.Value]bool)
		walk = func(v ssa.Value, at ssa.Instruction, seen map[ssa.Value]bool) {
			switch t := v.(type) {
			case *ssa.Phi:
				if seen[v] {
					return
				}
				seen[v] = true
				for i, e := range t.Edges {
					walk(e, termOf(t.Block().Preds[i]), seen)
				}
				return
			case *ssa.ChangeInterface:
				walk(t.X, at, seen)
				return
			case *ssa.MakeInterface:
				if ptrToNamed(t.X.Type(), x.tMSEConn) {
					return
				}
			}
			if at == nil || !hsNotYet.Before(at) {
				okConn, why = false, cs.describe(v)
			}
		}
		walk(r.Results[0], r, map[ssa.Value]bool{})
		c.Check(okConn, "R12.3", key, posOf(r),
			"nil error only under forceEncryption==false or isEncrypted==true; after the MSE handshake the returned connection is the MSE wrapper",
			"after the MSE handshake Accept may hand out "+why+" instead of the MSE wrapper: the negotiated cipher would not be applied")
	}
	c.Floor("R12.3", "returns of Accept whose error may be nil", len(succ), 1)
	n := x.mseWrapperUse("R12.3", fn, x.hsIn, 0)
	c.Floor("R12.3", "uses of the MSE wrapper as the connection in Accept", n, 1)

	// (a2) writes on the connection (our half of the BitTorrent handshake)
	sinks := cs.writeSinks()
	for _, s := range sinks {
		key := k.key(fn, "conn write: "+s.What)
		if cs.safe(s.Val, s.Ins, nil) {
			c.OK("R12.3", key, posOf(s.Ins), "write on %s only under forceEncryption==false or isEncrypted==true", cs.describe(s.Val))
		} else {
			c.Bad("R12.3", key, posOf(s.Ins), "write on %s is not dominated by forceEncryption==false or isEncrypted==true: our handshake (info-hash, peer id) is sent in plaintext although encryption is forced", cs.describe(s.Val))
		}
	}
	c.Floor("R12.3", "writes on the connection in Accept (handshake reply)", len(sinks), 1)
	cs.closureConnWrites("R12.3")

	// (b) who sets isEncrypted, and to what
	c.Check(!cellEscapes(fn, enc), "R12.3", kit.FuncName(fn)+"/isEncrypted address not taken", enc.Pos(),
		"isEncrypted is only loaded, stored and captured by the callback", "the address of isEncrypted escapes: its writers cannot be enumerated")
	nStores := 0
	// a store `isEncrypted = (ret == mse.RC4)` of the very value the
	// callback returns is as good as the constant form
	isRetEqRC4 := func(f *ssa.Function, v ssa.Value) bool {
		e := kit.Canon(v)
		if e.Kind != "binop" || e.Op != token.EQL {
			return false
		}
		l, r := e.Args[0], e.Args[1]
		if z, ok := l.IntConst(); ok && z == x.rc4Bit {
			l, r = r, l
		}
		if z, ok := r.IntConst(); !ok || z != x.rc4Bit {
			return false
		}
		rets := returnsOf(f)
		for _, rt := range rets {
			if len(rt.Results) != 1 || rt.Results[0] != l.Strip().V {
				return false
			}
		}
		return len(rets) > 0
	}
	setsTrue := func(ins ssa.Instruction) bool {
		st, ok := ins.(*ssa.Store)
		if !ok || cellRoot(st.Addr) != ssa.Value(enc) {
			return false
		}
		return !kit.Canon(st.Val).IsConstBool(false) && !isRetEqRC4(ins.Parent(), st.Val)
	}
	notSet := c.Pending(cb, setsTrue, func(ssa.Instruction) bool { return false })
	for _, s := range cellStores(fn, enc) {
		nStores++
		key := k.key(s.Fn, "store isEncrypted")
		e := kit.Canon(s.St.Val)
		switch {
		case s.Fn == fn && e.IsConstBool(false):
			c.Present("R12.3", key, posOf(s.St), "isEncrypted initialised to false in Accept")
		case s.Fn == fn:
			c.Bad("R12.3", key, posOf(s.St), "isEncrypted is assigned %s in Accept itself: only the crypto_select callback may set it", e)
		case s.Fn != cb:
			c.Bad("R12.3", key, posOf(s.St), "isEncrypted is assigned in %s, not in the crypto_select callback", kit.FuncName(s.Fn))
		case isRetEqRC4(cb, s.St.Val):
			c.OK("R12.3", key, posOf(s.St), "isEncrypted assigned (selected == mse.RC4) about the value the callback returns")
		case !e.IsConstBool(true) && !e.IsConstBool(false):
			c.Bad("R12.3", key, posOf(s.St), "isEncrypted is assigned the non-constant %s", e)
		default:
			c.Present("R12.3", key, posOf(s.St), "isEncrypted assigned a constant in the crypto_select callback")
		}
	}
	c.Floor("R12.3", "stores to isEncrypted (init false, callback true)", nStores, 2)
	nRet := 0
	for _, r := range returnsOf(cb) {
		if len(r.Results) != 1 {
			continue
		}
		for _, src := range boolSources(r.Results[0]) {
			at := src.At
			if at == nil {
				at = r
			}
			if notSet.Before(at) {
				continue // isEncrypted untouched on this path
			}
			nRet++
			key := k.key(cb, "selection after isEncrypted=true")
			kv, ok := src.V.(*ssa.Const)
			val := int64(-1)
			if ok && kv.Value != nil && kv.Value.Kind() == constant.Int {
				val, _ = constant.Int64Val(kv.Value)
			}
			c.Check(val == x.rc4Bit, "R12.3", key, posOf(at),
				"on the path that sets isEncrypted the callback returns exactly mse.RC4",
				"on a path that sets isEncrypted=true the callback may return "+kit.Canon(src.V).String()+" instead of mse.RC4: a plaintext stream would count as encrypted")
		}
	}
	eqForm := false
	for _, s := range cellStores(fn, enc) {
		if s.Fn == cb && isRetEqRC4(cb, s.St.Val) {
			eqForm = true
		}
	}
	if !eqForm {
		c.Floor("R12.3", "callback return values on paths that set isEncrypted", nRet, 1)
	}

	// (c) PlainText is selected only when not forced
	notFcb := c.AtomFlow(cb, func(a kit.Atom) bool { return a.IsFalse(F.is) }, nil)
	nSel := 0
	for _, r := range returnsOf(cb) {
		if len(r.Results) != 1 {
			continue
		}
		nSel++
		key := k.key(cb, "selected method")
		if bitOnlyUnder(cb, r.Results[0], x.plainBit, r, notFcb, nil) {
			c.OK("R12.3", key, posOf(r), "the callback's result contains mse.PlainText only where forceEncryption==false")
		} else {
			c.Bad("R12.3", key, posOf(r), "the crypto_select callback may return a value containing mse.PlainText while forceEncryption is true: a forced-encryption listener negotiates a plaintext stream")
		}
	}
	c.Floor("R12.3", "returns of the crypto_select callback", nSel, 1)

	// (d) the design listed "forceEncryption && getSKey == nil panics before any
	// I/O" here. It is not a necessary condition of the property: without the
	// panic a forced listener with no key still rejects every connection through
	// the isEncrypted test (checked above), so the sub-rule would fire on an edit
	// that leaves the behaviour intact. Dropped (see DESIGN.md, C12).
}

// ---- R12.4 wiring -----------------------------------------------------------------

func (x *c12) wiring() {
	c, k := x.c, x.k
	type want struct {
		callee *ssa.Function
		param  string
		field  *types.Var
		neg    bool
		allow  *ssa.Function
	}
	outRun := c.Func("internal/handshaker/outgoinghandshaker", "(*OutgoingHandshaker).Run")
	inRun := c.Func("internal/handshaker/incominghandshaker", "(*IncomingHandshaker).Run")
	ws := []want{
		{x.dial, "forceEncryption", c.Field("torrent", "Config", "ForceOutgoingEncryption"), false, outRun},
		{x.dial, "enableEncryption", c.Field("torrent", "Config", "DisableOutgoingEncryption"), true, outRun},
		{x.accept, "forceEncryption", c.Field("torrent", "Config", "ForceIncomingEncryption"), false, inRun},
	}
	for _, w := range ws {
		obj := w.callee.Object().(*types.Func)
		_, idx := findParam(w.callee, w.param)
		sites := sortSites(c.CallSites(obj))
		n := 0
		for _, s := range sites {
			n++
			key := k.key(s.Fn, "call "+w.callee.Name()+" "+w.param)
			if s.Fn != w.allow {
				c.Bad("R12.4", key, posOf(s.Instr), "%s is called outside %s: its %s argument is not wired from the session configuration", w.callee.Name(), kit.FuncName(w.allow), w.param)
				continue
			}
			os := origins(c, argOf(s.Instr.Common(), idx), false, 3, nil)
			bad := ""
			for _, o := range os {
				if o.Kind != "field" || o.Field != w.field || o.Neg != w.neg {
					bad = o.String()
					if o.In != nil {
						bad += " in " + kit.FuncName(o.In)
					}
				}
			}
			pol := ""
			if w.neg {
				pol = "!"
			}
			switch {
			case len(os) == 0:
				c.Bad("R12.4", key, posOf(s.Instr), "origin of the %s argument of %s cannot be followed", w.param, w.callee.Name())
			case bad != "":
				c.Bad("R12.4", key, posOf(s.Instr), "%s of %s is wired from %s, not from %sConfig.%s: the configured encryption policy is not the one applied", w.param, w.callee.Name(), bad, pol, w.field.Name())
			default:
				c.OK("R12.4", key, posOf(s.Instr), "%s of %s originates from %sConfig.%s at every call site of %s (%d origin(s))", w.param, w.callee.Name(), pol, w.field.Name(), kit.FuncName(w.allow), len(os))
			}
		}
		c.Floor("R12.4", "call sites of "+w.callee.Name()+" ("+w.param+")", n, 1)
		for _, r := range c.FuncRefs(obj) {
			c.Bad("R12.4", k.key(r.Fn, "ref "+w.callee.Name()), r.Fn.Pos(), "%s is taken as a function value: its callers cannot be enumerated", w.callee.Name())
		}
	}
	// the Run methods themselves are started from package torrent only
	for _, run := range []*ssa.Function{outRun, inRun} {
		n := 0
		for _, s := range sortSites(c.CallSites(run.Object().(*types.Func))) {
			n++
			key := k.key(s.Fn, "start "+kit.FuncName(run))
			if inPkg(s.Fn, c, "torrent") {
				c.Present("R12.4", key, posOf(s.Instr), "handshaker started from package torrent with the session configuration")
			} else {
				c.Bad("R12.4", key, posOf(s.Instr), "handshaker started outside package torrent")
			}
		}
		c.Floor("R12.4", "start sites of "+kit.FuncName(run), n, 1)
	}
}

// ---- R12.5 the recorded cipher is the negotiated one ----------------------------------

func (x *c12) cipherRecorded() {
	c, k := x.c, x.k
	fEnc := c.Field("internal/peer", "Peer", "EncryptionCipher")
	fInC := c.Field("internal/handshaker/incominghandshaker", "IncomingHandshaker", "Cipher")
	fOutC := c.Field("internal/handshaker/outgoinghandshaker", "OutgoingHandshaker", "Cipher")
	fInConn := c.Field("internal/handshaker/incominghandshaker", "IncomingHandshaker", "Conn")
	fOutConn := c.Field("internal/handshaker/outgoinghandshaker", "OutgoingHandshaker", "Conn")
	peerNew := c.Func("internal/peer", "New")
	dialObj := x.dial.Object().(*types.Func)
	acceptObj := x.accept.Object().(*types.Func)

	// Peer.EncryptionCipher <- peer.New(cipher) <- handshaker.Cipher
	n := 0
	for _, st := range fieldStores(c, fEnc) {
		n++
		key := k.key(st.Fn, "store Peer.EncryptionCipher")
		if st.Fn != peerNew {
			c.Bad("R12.5", key, posOf(st.Store), "Peer.EncryptionCipher is written outside peer.New: what Peers() reports can differ from what was negotiated")
			continue
		}
		os := origins(c, st.Val, false, 3, nil)
		bad := ""
		for _, o := range os {
			if o.Kind != "field" || (o.Field != fInC && o.Field != fOutC) || o.Neg {
				bad = o.String()
				if o.In != nil {
					bad += " in " + kit.FuncName(o.In)
				}
			}
		}
		switch {
		case len(os) == 0:
			c.Bad("R12.5", key, posOf(st.Store), "origin of Peer.EncryptionCipher cannot be followed")
		case bad != "":
			c.Bad("R12.5", key, posOf(st.Store), "Peer.EncryptionCipher can originate from %s, not from the Cipher field of a finished handshaker", bad)
		default:
			c.OK("R12.5", key, posOf(st.Store), "Peer.EncryptionCipher originates from IncomingHandshaker.Cipher / OutgoingHandshaker.Cipher on all %d call chains", len(os))
		}
	}
	c.Floor("R12.5", "stores to Peer.EncryptionCipher", n, 1)

	// the connection and the cipher given to peer.New come from the same handshaker
	_, connIdx := findParam(peerNew, "conn")
	_, ciphIdx := findParam(peerNew, "cipher")
	nPair := 0
	for _, s := range sortSites(c.CallSites(peerNew.Object().(*types.Func))) {
		co := origins(c, argOf(s.Instr.Common(), connIdx), false, 2, nil)
		ci := origins(c, argOf(s.Instr.Common(), ciphIdx), false, 2, nil)
		key := k.key(s.Fn, "peer.New conn/cipher pair")
		ok := len(co) > 0 && len(co) == len(ci)
		why := ""
		for i := 0; ok && i < len(co); i++ {
			a, b := co[i], ci[i]
			pair := a.Kind == "field" && b.Kind == "field" && a.Base == b.Base && a.In == b.In &&
				((a.Field == fInConn && b.Field == fInC) || (a.Field == fOutConn && b.Field == fOutC))
			if !pair {
				ok = false
				why = a.String() + " with " + b.String()
			}
		}
		nPair++
		c.Check(ok, "R12.5", key, posOf(s.Instr),
			"connection and cipher passed to peer.New are the Conn and Cipher fields of the same handshaker value at every call chain",
			"peer.New is given a connection and a cipher that are not the Conn/Cipher of one handshaker ("+why+")")
	}
	c.Floor("R12.5", "peer.New call sites", nPair, 1)

	// handshaker.Cipher <- cipher result of Accept / Dial, in Run
	for _, h := range []struct {
		f    *types.Var
		from *types.Func
		run  *ssa.Function
	}{
		{fInC, acceptObj, c.Func("internal/handshaker/incominghandshaker", "(*IncomingHandshaker).Run")},
		{fOutC, dialObj, c.Func("internal/handshaker/outgoinghandshaker", "(*OutgoingHandshaker).Run")},
	} {
		n := 0
		for _, st := range fieldStores(c, h.f) {
			n++
			key := k.key(st.Fn, "store "+h.f.Name())
			os := origins(c, st.Val, false, 1, nil)
			ok := st.Fn == h.run && len(os) > 0
			for _, o := range os {
				if o.Kind != "call" || o.Call != h.from || o.Idx != 1 {
					ok = false
				}
			}
			c.Check(ok, "R12.5", key, posOf(st.Store),
				"handshaker Cipher field is the cipher result of btconn."+h.from.Name(),
				"handshaker Cipher field is not (only) the cipher result of btconn."+h.from.Name()+" stored in Run")
		}
		c.Floor("R12.5", "stores to "+kit.FuncName(h.run)+" Cipher", n, 1)
	}

	// Dial's cipher result <- result 0 of HandshakeOutgoing (or zero when MSE is not attempted)
	{
		fn := x.dial
		ef := newErrFacts(c, fn)
		succ := ef.successReturns(fn.Signature.Results().Len() - 1)
		for _, r := range succ {
			key := k.key(fn, "cipher result")
			os := origins(c, r.Results[1], false, 0, nil)
			ok := true
			viaHS := false
			for _, o := range os {
				switch {
				case o.Kind == "call" && o.Call == x.hsOut && o.Idx == 0:
					viaHS = true
				case o.Kind == "const" && (o.Desc == "zero value" || isZeroConstDesc(o.Desc)):
				default:
					ok = false
				}
			}
			c.Check(ok && viaHS, "R12.5", key, posOf(r),
				"Dial's cipher result is result 0 of HandshakeOutgoing (zero when no MSE handshake was made)",
				"Dial's cipher result is not the value selected in HandshakeOutgoing")
		}
		c.Floor("R12.5", "success returns of Dial (cipher)", len(succ), 1)
	}

	// Accept's cipher result <- the value the crypto_select callback returns
	{
		fn := x.accept
		ef := newErrFacts(c, fn)
		succ := ef.successReturns(fn.Signature.Results().Len() - 1)
		nOK := 0
		for _, r := range succ {
			key := k.key(fn, "cipher result")
			u, _ := r.Results[1].(*ssa.UnOp)
			var cell *ssa.Alloc
			if u != nil {
				cell, _ = u.X.(*ssa.Alloc)
			}
			if cell == nil {
				c.Bad("R12.5", key, posOf(r), "Accept's cipher result %s is not the local set by the crypto_select callback", kit.Canon(r.Results[1]))
				continue
			}
			ok := !cellEscapes(fn, cell)
			why := "address of the cipher local escapes"
			stores := cellStores(fn, cell)
			if len(stores) == 0 {
				ok, why = false, "the cipher local is never assigned"
			}
			for _, s := range stores {
				if s.Fn == fn || s.Fn.Parent() != fn {
					ok, why = false, "the cipher local is assigned outside the crypto_select callback"
					continue
				}
				// in the callback: every return returns the value stored last
				for _, cr := range returnsOf(s.Fn) {
					if len(cr.Results) != 1 {
						ok, why = false, "callback shape"
						continue
					}
					ret := cr.Results[0]
					fl := &kit.Flow{P: c.Prog, Fn: s.Fn}
					fl.Instr = func(ins ssa.Instruction, in bool) bool {
						if st, isSt := ins.(*ssa.Store); isSt && cellRoot(st.Addr) == ssa.Value(cell) {
							return st.Val == ret
						}
						return in
					}
					if !fl.Solve().Before(cr) {
						ok, why = false, "the callback can return a method other than the one it recorded in cipher"
					}
				}
			}
			if ok {
				nOK++
			}
			c.Check(ok, "R12.5", key, posOf(r),
				"Accept's cipher result is the local that the crypto_select callback sets to exactly the value it returns",
				"Accept's cipher result is not the selected method: "+why)
		}
		c.Floor("R12.5", "success returns of Accept (cipher)", len(succ), 1)
	}
}

func isZeroConstDesc(d string) bool {
	return len(d) > 0 && d[0] == '0' && (len(d) == 1 || d[1] == ':')
}

package rules

import (
	"go/types"

	"golang.org/x/tools/go/ssa"

	"rainverif/checker/kit"
)

// ---- R12.3 incoming -------------------------------------------------------------

func (x *c12) incoming() {
	c, k, fn := x.c, x.k, x.accept
	in := x.inc()
	F := in.F
	c.Check(!F.reassigned(), "R12.3", kit.FuncName(fn)+"/param forceEncryption not re-assigned", F.P.Pos(),
		"forceEncryption is never written inside Accept or its closures", "forceEncryption is written inside Accept: the configured policy can be overridden")

	// the MSE responder handshake and its crypto_select callback: in Accept or
	// in a helper that only Accept (transitively) calls
	c.Floor("R12.3", "HandshakeIncoming call reachable from Accept", in.nHS, 1)
	if in.nHS != 1 {
		if in.nHS > 1 {
			c.Bad("R12.3", kit.FuncName(fn)+"/single HandshakeIncoming", fn.Pos(), "the module contains %d HandshakeIncoming calls: the rule is written for one", in.nHS)
		}
		return
	}
	hs, cb := in.hs, in.cb
	if in.hsSite == nil {
		c.Bad("R12.3", kit.FuncName(fn)+"/HandshakeIncoming runs inside Accept", posOf(hs), "the MSE responder handshake in %s is not executed by btconn.Accept or a helper called only from it: its crypto_select callback is not tied to forceEncryption", kit.FuncName(in.hsFn))
		return
	}
	// the closure is used for nothing else
	onlyHS := true
	if in.mc != nil {
		for _, r := range *in.mc.Referrers() {
			if _, dbg := r.(*ssa.DebugRef); !dbg && r != ssa.Instruction(hs) {
				onlyHS = false
			}
		}
	}
	c.Check(onlyHS, "R12.3", k.key(fn, "crypto_select closure only passed to HandshakeIncoming"), posOf(hs),
		"the crypto_select closure is used only as the argument of HandshakeIncoming",
		"the crypto_select closure is also used elsewhere: 'the callback returned RC4 implies an MSE handshake ran' no longer follows")

	// G: forceEncryption == false, or the callback ran and returned mse.RC4
	cs := in.safety(fn)
	encOK := cs.G

	// (a) success return
	ef := newErrFacts(c, fn)
	errIdx := fn.Signature.Results().Len() - 1
	succ := ef.successReturns(errIdx)
	hsNotYet := notYetExecuted(c, fn, in.hsSite)
	for _, r := range succ {
		key := k.key(fn, "return with possibly-nil error")
		if !encOK.Before(r) {
			c.Bad("R12.3", key, posOf(r), "Accept may return a nil error on a path where neither forceEncryption==false nor 'the negotiated cipher is mse.RC4' (a flag set only where RC4 is selected, or a test of the selected cipher against mse.RC4) is established: an unencrypted incoming connection is accepted although encryption is forced")
			continue
		}
		// once the MSE handshake ran, the connection handed out is the wrapper
		okConn, why := true, ""
		var walk func(v ssa.Value, at ssa.Instruction, seen map[ssa.Value]bool)
		walk = func(v ssa.Value, at ssa.Instruction, seen map[ssa.Value]bool) {
			switch t := v.(type) {
			case *ssa.Phi:
				if seen[v] {
					return
				}
				seen[v] = true
				for i, e := range t.Edges {
					walk(e, termOf(t.Block().Preds[i]), seen)
				}
				return
			case *ssa.ChangeInterface:
				walk(t.X, at, seen)
				return
			case *ssa.MakeInterface:
				if ptrToNamed(t.X.Type(), x.tMSEConn) {
					return
				}
			}
			if at == nil || !hsNotYet.Before(at) {
				okConn, why = false, cs.describe(v)
			}
		}
		walk(r.Results[0], r, map[ssa.Value]bool{})
		c.Check(okConn, "R12.3", key, posOf(r),
			"nil error only under forceEncryption==false or established 'negotiated cipher is mse.RC4'; after the MSE handshake the returned connection is the MSE wrapper",
			"after the MSE handshake Accept may hand out "+why+" instead of the MSE wrapper: the negotiated cipher would not be applied")
	}
	c.Floor("R12.3", "returns of Accept whose error may be nil", len(succ), 1)
	n := x.mseWrapperUse("R12.3", fn, x.hsIn, 0)
	c.Floor("R12.3", "uses of the MSE wrapper as the connection in Accept", n, 1)

	// (a2) writes on the connection (our half of the BitTorrent handshake)
	sinks := cs.writeSinks()
	for _, s := range sinks {
		key := k.key(fn, "conn write: "+s.What)
		if cs.safe(s.Val, s.Ins, nil) {
			c.OK("R12.3", key, posOf(s.Ins), "write on %s only under forceEncryption==false or established 'negotiated cipher is mse.RC4'", cs.describe(s.Val))
		} else {
			c.Bad("R12.3", key, posOf(s.Ins), "write on %s is not dominated by forceEncryption==false or by evidence that the negotiated cipher is mse.RC4: our handshake (info-hash, peer id) is sent unencrypted although encryption is forced", cs.describe(s.Val))
		}
	}
	c.Floor("R12.3", "writes on the connection in Accept (handshake reply)", len(sinks), 1)
	cs.closureConnWrites("R12.3")

	// (b) bool locals the callback writes ("isEncrypted"-style flags): every
	// store is judged where it is; a flag that does not qualify is no evidence
	// above, here the reason is reported
	var flags []*ssa.Alloc
	seenFlag := map[*ssa.Alloc]bool{}
	for _, f := range kit.WithAnon(cb) {
		kit.Instrs(f, func(ins ssa.Instruction) {
			st, ok := ins.(*ssa.Store)
			if !ok {
				return
			}
			a, ok := cellRoot(st.Addr).(*ssa.Alloc)
			if !ok || fnIn(a.Parent(), cb) || seenFlag[a] {
				return
			}
			if b, isB := st.Val.Type().Underlying().(*types.Basic); !isB || b.Kind() != types.Bool {
				return
			}
			for _, bp := range in.aliases(a.Parent()) {
				if bp.Cell == a {
					return
				}
			}
			seenFlag[a] = true
			flags = append(flags, a)
		})
	}
	for _, a := range flags {
		name := a.Comment
		if name == "" {
			name = "flag"
		}
		c.Check(!cellEscapes(a.Parent(), a), "R12.3", kit.FuncName(a.Parent())+"/"+name+" address not taken", a.Pos(),
			name+" is only loaded, stored and captured by the callback", "the address of "+name+" escapes: its writers cannot be enumerated")
		for _, fs := range in.flagCellStores(a) {
			key := k.key(fs.S.Fn, "store "+name)
			switch {
			case !fs.OK:
				c.Bad("R12.3", key, posOf(fs.S.St), "%s (written by the crypto_select callback, read as 'encrypted') is %s", name, fs.Why)
			case fs.Kind == "false":
				c.Present("R12.3", key, posOf(fs.S.St), "%s %s", name, fs.Why)
			default:
				c.OK("R12.3", key, posOf(fs.S.St), "%s %s", name, fs.Why)
			}
		}
	}

	// (c) PlainText is selected only when not forced (the selection may be
	// computed by a helper such as selectCipher(provided, forceEncryption))
	nSel := 0
	for _, r := range returnsOf(cb) {
		if len(r.Results) != 1 {
			continue
		}
		nSel++
		key := k.key(cb, "selected method")
		if in.plainOnlyUnderNotF(cb, r.Results[0], r, nil, 3) {
			c.OK("R12.3", key, posOf(r), "the callback's result contains mse.PlainText only where forceEncryption==false")
		} else {
			c.Bad("R12.3", key, posOf(r), "the crypto_select callback may return a value containing mse.PlainText while forceEncryption is true: a forced-encryption listener negotiates a plaintext stream")
		}
	}
	c.Floor("R12.3", "returns of the crypto_select callback", nSel, 1)

	// (d) the design listed "forceEncryption && getSKey == nil panics before any
	// I/O" here. It is not a necessary condition of the property: without the
	// panic a forced listener with no key still rejects every connection through
	// the RC4 evidence test (checked above), so the sub-rule would fire on an edit
	// that leaves the behaviour intact. Dropped (see DESIGN.md, C12).
}

// ---- R12.4 wiring -----------------------------------------------------------------

func (x *c12) wiring() {
	c, k := x.c, x.k
	type want struct {
		callee *ssa.Function
		param  string
		field  *types.Var
		neg    bool
		allow  *ssa.Function
	}
	outRun := c.Func("internal/handshaker/outgoinghandshaker", "(*OutgoingHandshaker).Run")
	inRun := c.Func("internal/handshaker/incominghandshaker", "(*IncomingHandshaker).Run")
	ws := []want{
		{x.dial, "forceEncryption", c.Field("torrent", "Config", "ForceOutgoingEncryption"), false, outRun},
		{x.dial, "enableEncryption", c.Field("torrent", "Config", "DisableOutgoingEncryption"), true, outRun},
		{x.accept, "forceEncryption", c.Field("torrent", "Config", "ForceIncomingEncryption"), false, inRun},
	}
	for _, w := range ws {
		obj := w.callee.Object().(*types.Func)
		_, idx := findParam(w.callee, w.param)
		sites := sortSites(c.CallSites(obj))
		n := 0
		for _, s := range sites {
			n++
			key := k.key(s.Fn, "call "+w.callee.Name()+" "+w.param)
			if s.Fn != w.allow {
				c.Bad("R12.4", key, posOf(s.Instr), "%s is called outside %s: its %s argument is not wired from the session configuration", w.callee.Name(), kit.FuncName(w.allow), w.param)
				continue
			}
			os := origins(c, argOf(s.Instr.Common(), idx), false, 3, nil)
			bad := ""
			for _, o := range os {
				if o.Kind != "field" || o.Field != w.field || o.Neg != w.neg {
					bad = o.String()
					if o.In != nil {
						bad += " in " + kit.FuncName(o.In)
					}
				}
			}
			pol := ""
			if w.neg {
				pol = "!"
			}
			switch {
			case len(os) == 0:
				c.Bad("R12.4", key, posOf(s.Instr), "origin of the %s argument of %s cannot be followed", w.param, w.callee.Name())
			case bad != "":
				c.Bad("R12.4", key, posOf(s.Instr), "%s of %s is wired from %s, not from %sConfig.%s: the configured encryption policy is not the one applied", w.param, w.callee.Name(), bad, pol, w.field.Name())
			default:
				c.OK("R12.4", key, posOf(s.Instr), "%s of %s originates from %sConfig.%s at every call site of %s (%d origin(s))", w.param, w.callee.Name(), pol, w.field.Name(), kit.FuncName(w.allow), len(os))
			}
		}
		c.Floor("R12.4", "call sites of "+w.callee.Name()+" ("+w.param+")", n, 1)
		for _, r := range c.FuncRefs(obj) {
			c.Bad("R12.4", k.key(r.Fn, "ref "+w.callee.Name()), r.Fn.Pos(), "%s is taken as a function value: its callers cannot be enumerated", w.callee.Name())
		}
	}
	// the Run methods themselves are started from package torrent only
	for _, run := range []*ssa.Function{outRun, inRun} {
		n := 0
		for _, s := range sortSites(c.CallSites(run.Object().(*types.Func))) {
			n++
			key := k.key(s.Fn, "start "+kit.FuncName(run))
			if inPkg(s.Fn, c, "torrent") {
				c.Present("R12.4", key, posOf(s.Instr), "handshaker started from package torrent with the session configuration")
			} else {
				c.Bad("R12.4", key, posOf(s.Instr), "handshaker started outside package torrent")
			}
		}
		c.Floor("R12.4", "start sites of "+kit.FuncName(run), n, 1)
	}
}

// ---- R12.5 the recorded cipher is the negotiated one ----------------------------------

func (x *c12) cipherRecorded() {
	c, k := x.c, x.k
	fEnc := c.Field("internal/peer", "Peer", "EncryptionCipher")
	fInC := c.Field("internal/handshaker/incominghandshaker", "IncomingHandshaker", "Cipher")
	fOutC := c.Field("internal/handshaker/outgoinghandshaker", "OutgoingHandshaker", "Cipher")
	fInConn := c.Field("internal/handshaker/incominghandshaker", "IncomingHandshaker", "Conn")
	fOutConn := c.Field("internal/handshaker/outgoinghandshaker", "OutgoingHandshaker", "Conn")
	peerNew := c.Func("internal/peer", "New")
	dialObj := x.dial.Object().(*types.Func)
	acceptObj := x.accept.Object().(*types.Func)

	// Peer.EncryptionCipher <- peer.New(cipher) <- handshaker.Cipher
	n := 0
	for _, st := range fieldStores(c, fEnc) {
		n++
		key := k.key(st.Fn, "store Peer.EncryptionCipher")
		if st.Fn != peerNew {
			c.Bad("R12.5", key, posOf(st.Store), "Peer.EncryptionCipher is written outside peer.New: what Peers() reports can differ from what was negotiated")
			continue
		}
		os := origins(c, st.Val, false, 3, nil)
		bad := ""
		for _, o := range os {
			if o.Kind != "field" || (o.Field != fInC && o.Field != fOutC) || o.Neg {
				bad = o.String()
				if o.In != nil {
					bad += " in " + kit.FuncName(o.In)
				}
			}
		}
		switch {
		case len(os) == 0:
			c.Bad("R12.5", key, posOf(st.Store), "origin of Peer.EncryptionCipher cannot be followed")
		case bad != "":
			c.Bad("R12.5", key, posOf(st.Store), "Peer.EncryptionCipher can originate from %s, not from the Cipher field of a finished handshaker", bad)
		default:
			c.OK("R12.5", key, posOf(st.Store), "Peer.EncryptionCipher originates from IncomingHandshaker.Cipher / OutgoingHandshaker.Cipher on all %d call chains", len(os))
		}
	}
	c.Floor("R12.5", "stores to Peer.EncryptionCipher", n, 1)

	// the connection and the cipher given to peer.New come from the same handshaker
	_, connIdx := findParam(peerNew, "conn")
	_, ciphIdx := findParam(peerNew, "cipher")
	nPair := 0
	for _, s := range sortSites(c.CallSites(peerNew.Object().(*types.Func))) {
		co := origins(c, argOf(s.Instr.Common(), connIdx), false, 2, nil)
		ci := origins(c, argOf(s.Instr.Common(), ciphIdx), false, 2, nil)
		key := k.key(s.Fn, "peer.New conn/cipher pair")
		ok := len(co) > 0 && len(co) == len(ci)
		why := ""
		for i := 0; ok && i < len(co); i++ {
			a, b := co[i], ci[i]
			pair := a.Kind == "field" && b.Kind == "field" && a.Base == b.Base && a.In == b.In &&
				((a.Field == fInConn && b.Field == fInC) || (a.Field == fOutConn && b.Field == fOutC))
			if !pair {
				ok = false
				why = a.String() + " with " + b.String()
			}
		}
		nPair++
		c.Check(ok, "R12.5", key, posOf(s.Instr),
			"connection and cipher passed to peer.New are the Conn and Cipher fields of the same handshaker value at every call chain",
			"peer.New is given a connection and a cipher that are not the Conn/Cipher of one handshaker ("+why+")")
	}
	c.Floor("R12.5", "peer.New call sites", nPair, 1)

	// handshaker.Cipher <- cipher result of Accept / Dial, in Run
	for _, h := range []struct {
		f    *types.Var
		from *types.Func
		run  *ssa.Function
	}{
		{fInC, acceptObj, c.Func("internal/handshaker/incominghandshaker", "(*IncomingHandshaker).Run")},
		{fOutC, dialObj, c.Func("internal/handshaker/outgoinghandshaker", "(*OutgoingHandshaker).Run")},
	} {
		n := 0
		for _, st := range fieldStores(c, h.f) {
			n++
			key := k.key(st.Fn, "store "+h.f.Name())
			os := origins(c, st.Val, false, 1, nil)
			ok := st.Fn == h.run && len(os) > 0
			for _, o := range os {
				if o.Kind != "call" || o.Call != h.from || o.Idx != 1 {
					ok = false
				}
			}
			c.Check(ok, "R12.5", key, posOf(st.Store),
				"handshaker Cipher field is the cipher result of btconn."+h.from.Name(),
				"handshaker Cipher field is not (only) the cipher result of btconn."+h.from.Name()+" stored in Run")
		}
		c.Floor("R12.5", "stores to "+kit.FuncName(h.run)+" Cipher", n, 1)
	}

	// Dial's cipher result <- result 0 of HandshakeOutgoing (or zero when MSE is not attempted)
	{
		fn := x.dial
		ef := newErrFacts(c, fn)
		succ := ef.successReturns(fn.Signature.Results().Len() - 1)
		for _, r := range succ {
			key := k.key(fn, "cipher result")
			os := origins(c, r.Results[1], false, 0, nil)
			ok := true
			viaHS := false
			for _, o := range os {
				switch {
				case o.Kind == "call" && o.Call == x.hsOut && o.Idx == 0:
					viaHS = true
				case o.Kind == "const" && (o.Desc == "zero value" || isZeroConstDesc(o.Desc)):
				default:
					ok = false
				}
			}
			c.Check(ok && viaHS, "R12.5", key, posOf(r),
				"Dial's cipher result is result 0 of HandshakeOutgoing (zero when no MSE handshake was made)",
				"Dial's cipher result is not the value selected in HandshakeOutgoing")
		}
		c.Floor("R12.5", "success returns of Dial (cipher)", len(succ), 1)
	}

	// Accept's cipher result <- the value the crypto_select callback returns
	// (through a local the callback sets, possibly via a helper's result)
	{
		fn := x.accept
		in := x.inc()
		ef := newErrFacts(c, fn)
		succ := ef.successReturns(fn.Signature.Results().Len() - 1)
		for _, r := range succ {
			key := k.key(fn, "cipher result")
			ok := in.hs != nil && in.cb != nil && in.hsSite != nil && in.selOK(r.Results[1])
			if ok {
				// and it is not vacuous: whenever the MSE handshake ran on the
				// path, the result carries the callback's value
				hsNotYet := notYetExecuted(c, fn, in.hsSite)
				ok = in.selLinked(r.Results[1], r, func(at ssa.Instruction) bool { return at.Parent() == fn && hsNotYet.Before(at) }, map[ssa.Value]bool{})
			}
			c.Check(ok, "R12.5", key, posOf(r),
				"Accept's cipher result is zero or exactly the value the crypto_select callback returned (a local the callback sets once to what it returns)",
				"Accept's cipher result "+kit.Canon(r.Results[1]).String()+" is not the selected method: it is not (only) a copy of the value the crypto_select callback returns, or it is not assigned on a path on which the MSE handshake ran")
		}
		c.Floor("R12.5", "success returns of Accept (cipher)", len(succ), 1)
	}
}

func isZeroConstDesc(d string) bool {
	return len(d) > 0 && d[0] == '0' && (len(d) == 1 || d[1] == ':')
}

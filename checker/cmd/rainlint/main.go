// rainlint decides structural necessary conditions of the rain properties
// C01..C20 by static analysis of /repo's current working tree.
package main

import (
	"encoding/json"
	"flag"
	"fmt"
	"os"
	"path/filepath"
	"runtime"
	"runtime/debug"
	"runtime/pprof"
	"strconv"
	"strings"
	"time"

	"rainverif/checker/kit"
	"rainverif/checker/rules"
)

func main() {
	prop := flag.String("prop", "", "property id (C01..C20)")
	tier := flag.String("tier", "quick", "quick|thorough")
	repo := flag.String("repo", "/repo", "repository root")
	verif := flag.String("verif", "/verif", "verif root (evidence/, known_findings.json)")
	noEvidence := flag.Bool("no-evidence", false, "do not write the evidence file (used for mutant runs)")
	dump := flag.Bool("dump", false, "print every obligation")
	configs := flag.String("configs", "", "comma separated GOOS/GOARCH list (overrides tier default)")
	cpuprof := flag.String("cpuprofile", "", "write a CPU profile (development)")
	flag.Parse()
	// several checks (and mutant runs) execute side by side: do not let each of
	// them claim every core
	if n := runtime.NumCPU(); n > 8 && os.Getenv("RAINLINT_ALLCPU") == "" {
		runtime.GOMAXPROCS(8)
	}
	if *cpuprof != "" {
		f, _ := os.Create(*cpuprof)
		pprof.StartCPUProfile(f)
		code := run(*prop, *tier, *repo, *verif, *noEvidence, *dump, *configs)
		pprof.StopCPUProfile()
		f.Close()
		os.Exit(code)
	}
	if *prop == "all" || strings.Contains(*prop, ",") {
		os.Exit(runMany(*prop, *repo, *verif))
	}
	os.Exit(run(*prop, *tier, *repo, *verif, *noEvidence, *dump, *configs))
}

// runMany evaluates several properties on ONE load of the program (default
// configuration, no evidence written). Used to evaluate mutants and seeded
// changes quickly; registered checks always run one property per process.
// Output: one "PROP <id> exit=<0|1|2> ..." line per property, followed by its
// violated obligations.
func runMany(list, repo, verif string) int {
	ids := rules.IDs()
	if list != "all" {
		ids = strings.Split(list, ",")
	}
	p, err := kit.Load(kit.Config{Dir: repo})
	if err != nil {
		fmt.Fprintf(os.Stderr, "rainlint: CHECK BROKEN: %v\n", err)
		return 2
	}
	kf, err := kit.LoadKnown(filepath.Join(verif, "known_findings.json"))
	if err != nil {
		fmt.Fprintf(os.Stderr, "rainlint: CHECK BROKEN: %v\n", err)
		return 2
	}
	worst := 0
	for _, id := range ids {
		pd := rules.Get(id)
		if pd == nil {
			fmt.Printf("PROP %s exit=2 unknown property\n", id)
			worst = 2
			continue
		}
		ctx := kit.NewCtx(p, id)
		perr := func() (err error) {
			defer func() {
				if r := recover(); r != nil {
					if ae, ok := r.(kit.AnchorError); ok {
						err = ae
						return
					}
					err = fmt.Errorf("checker panic: %v", r)
				}
			}()
			pd.Run(ctx)
			return nil
		}()
		if perr != nil {
			fmt.Printf("PROP %s exit=2 %v\n", id, perr)
			if worst == 0 {
				worst = 2
			}
			continue
		}
		res := &kit.Result{Prop: id, Obs: kit.MergeObs(ctx.Obs), Floors: ctx.Floors}
		v := kit.Judge(res, kf)
		code := 0
		switch {
		case len(v.Violations) > 0:
			code = 1
		case len(v.Undecided) > 0 || len(v.FloorFails) > 0:
			code = 2
		}
		fmt.Printf("PROP %s exit=%d obligations=%d known=%d violations=%d undecided=%d floorfails=%d\n", id, code, v.Obligations, len(v.Known), len(v.Violations), len(v.Undecided), len(v.FloorFails))
		for _, o := range v.Violations {
			fmt.Printf("  violated %s %s @%s: %s\n", o.Rule, o.Key, o.Pos, o.Why)
		}
		for _, f := range v.FloorFails {
			fmt.Printf("  floor %s %s: %d < %d\n", f.Rule, f.What, f.Count, f.Min)
		}
		if code == 1 || (code == 2 && worst == 0) {
			if code == 1 {
				worst = 1
			} else {
				worst = 2
			}
		}
	}
	return worst
}

func run(propID, tier, repo, verif string, noEvidence, dump bool, cfgFlag string) (code int) {
	start := time.Now()
	pd := rules.Get(propID)
	if pd == nil {
		fmt.Fprintf(os.Stderr, "rainlint: unknown property %q (have %v)\n", propID, rules.IDs())
		return 2
	}
	seed, _ := strconv.ParseInt(os.Getenv("VERIF_SEED"), 10, 64)
	cfgs := []kit.Config{{Dir: repo}}
	if tier == "thorough" {
		cfgs = []kit.Config{
			{Dir: repo, GOOS: "linux", GOARCH: "amd64"},
			{Dir: repo, GOOS: "linux", GOARCH: "386"},
			{Dir: repo, GOOS: "darwin", GOARCH: "amd64"},
			{Dir: repo, GOOS: "windows", GOARCH: "amd64"},
			{Dir: repo, GOOS: "freebsd", GOARCH: "amd64"},
		}
	}
	if cfgFlag != "" {
		cfgs = nil
		for _, s := range strings.Split(cfgFlag, ",") {
			a, b, _ := strings.Cut(s, "/")
			cfgs = append(cfgs, kit.Config{Dir: repo, GOOS: a, GOARCH: b})
		}
	}
	res := &kit.Result{Prop: propID, Tier: tier, Seed: seed, Explanation: pd.Explanation,
		RuleText: pd.RuleText, Assumptions: pd.Assumptions, Extra: map[string]any{}}
	var all []kit.Obligation
	broken := func(msg string) int {
		fmt.Fprintf(os.Stderr, "rainlint: CHECK BROKEN (not a property verdict): %s\n", msg)
		return 2
	}
	for i, cfg := range cfgs {
		var ctx *kit.Ctx
		err := func() (err error) {
			defer func() {
				if r := recover(); r != nil {
					if ae, ok := r.(kit.AnchorError); ok {
						err = ae
						return
					}
					err = fmt.Errorf("checker panic: %v\n%s", r, debug.Stack())
				}
			}()
			p, err := kit.Load(cfg)
			if err != nil {
				return err
			}
			ctx = kit.NewCtx(p, propID)
			if d := os.Getenv("RAINLINT_ATOMS"); d != "" {
				pk, fnn, _ := strings.Cut(d, ":")
				for _, a := range kit.DumpAtoms(p.Func(pk, fnn)) {
					fmt.Println(a)
				}
			}
			pd.Run(ctx)
			if i == 0 {
				res.Packages = len(p.All)
				res.ModuleFuncs = len(p.ModuleFunctions())
				res.Functions = p.NumFuncs
				if res.Functions == 0 {
					res.Functions = res.ModuleFuncs
				}
			}
			return nil
		}()
		if err != nil {
			return broken(fmt.Sprintf("[%s] %v", cfg, err))
		}
		res.Configs = append(res.Configs, cfg.String())
		all = append(all, ctx.Obs...)
		if i == 0 {
			res.Floors = ctx.Floors
		} else {
			// floors must hold in every configuration
			for _, f := range ctx.Floors {
				if f.Count < f.Min {
					f.What += " [" + cfg.String() + "]"
					res.Floors = append(res.Floors, f)
				}
			}
		}
		debug.FreeOSMemory()
	}
	res.Obs = kit.MergeObs(all)
	kf, err := kit.LoadKnown(filepath.Join(verif, "known_findings.json"))
	if err != nil {
		return broken(err.Error())
	}
	v := kit.Judge(res, kf)
	res.WallS = time.Since(start).Seconds()

	if dump {
		for _, o := range res.Obs {
			fmt.Printf("%-10s %-9s %s  @%s  -- %s\n", o.Status, o.Rule, o.Key, o.Pos, o.Why)
		}
	}
	cmd := fmt.Sprintf("./check %s %s", propID, tier)
	evPath := filepath.Join(verif, "evidence", propID+".json")
	vioPath := filepath.Join(verif, "evidence", propID+".violations.json")
	if !noEvidence {
		os.MkdirAll(filepath.Dir(evPath), 0o755)
		if err := kit.WriteEvidence(evPath, res, v, cmd); err != nil {
			return broken(err.Error())
		}
		os.Remove(vioPath)
	}
	fmt.Printf("rainlint %s tier=%s configs=%v packages=%d module_funcs=%d obligations=%d discharged=%d nontrivial=%d known=%d undecided=%d violations=%d wall=%.1fs\n",
		propID, tier, res.Configs, res.Packages, res.ModuleFuncs, v.Obligations, v.Discharged, v.Nontrivial, len(v.Known), len(v.Undecided), len(v.Violations), res.WallS)
	for _, k := range v.Known {
		fmt.Printf("KNOWN-FINDING: property=%s %s [%s %s @%s]\n", propID, k.K.What, k.O.Rule, k.O.Key, k.O.Pos)
	}
	if len(v.Violations) > 0 {
		for _, o := range v.Violations {
			fmt.Printf("  violated %s %s @%s: %s\n", o.Rule, o.Key, o.Pos, o.Why)
		}
		if !noEvidence {
			b, _ := json.MarshalIndent(map[string]any{"property": propID, "replay": cmd, "violations": v.Violations}, "", " ")
			os.WriteFile(vioPath, b, 0o644)
		}
		fmt.Printf("VIOLATION property=%s replay=%s\n", propID, vioPath)
		return 1
	}
	if len(v.Undecided) > 0 || len(v.FloorFails) > 0 {
		for _, o := range v.Undecided {
			fmt.Fprintf(os.Stderr, "  undecided %s %s @%s: %s\n", o.Rule, o.Key, o.Pos, o.Why)
		}
		for _, f := range v.FloorFails {
			fmt.Fprintf(os.Stderr, "  instance floor not met: %s %s: %d < %d\n", f.Rule, f.What, f.Count, f.Min)
		}
		return broken("undecided obligations or instance floor not met")
	}
	return 0
}

// Package kit is the analyser kit shared by all rain property rules:
// program loading, object resolution, SSA expression canonicalisation,
// must-fact data-flow, call-graph helpers and obligation reporting.
package kit

import (
	"fmt"
	"go/token"
	"go/types"
	"os"
	"sort"
	"strings"
	"sync"

	"golang.org/x/tools/go/callgraph"
	"golang.org/x/tools/go/callgraph/cha"
	"golang.org/x/tools/go/callgraph/vta"
	"golang.org/x/tools/go/packages"
	"golang.org/x/tools/go/ssa"
	"golang.org/x/tools/go/ssa/ssautil"
)

// ModPath is the module under analysis.
const ModPath = "github.com/cenkalti/rain/v2"

// Config selects one build configuration of the repository.
type Config struct {
	Dir    string
	GOOS   string
	GOARCH string
}

func (c Config) String() string {
	goos, goarch := c.GOOS, c.GOARCH
	if goos == "" {
		goos = "linux"
	}
	if goarch == "" {
		goarch = "amd64"
	}
	return goos + "/" + goarch
}

// Prog is the loaded, type-checked program in SSA form.
type Prog struct {
	Cfg      Config
	Fset     *token.FileSet
	Pkgs     []*packages.Package // module packages only (roots)
	All      map[string]*packages.Package
	SSA      *ssa.Program
	SSAPkgs  map[string]*ssa.Package
	NumFuncs int

	cgOnce   sync.Once
	cg       *callgraph.Graph
	chaGraph *callgraph.Graph
	allFuncs map[*ssa.Function]bool

	mfOnce      sync.Once
	modFns      []*ssa.Function
	modMu       sync.Mutex
	direct      map[*types.Var][]*ssa.Function
	storerCache map[*types.Var]map[*ssa.Function]bool
	scsOnce     sync.Once
	scs         map[*ssa.Function][]ssa.Instruction
}

// Load loads ./... of the repository for one build configuration.
func Load(c Config) (*Prog, error) {
	env := os.Environ()
	var out []string
	for _, e := range env {
		if strings.HasPrefix(e, "GOWORK=") || strings.HasPrefix(e, "GOOS=") || strings.HasPrefix(e, "GOARCH=") {
			continue
		}
		out = append(out, e)
	}
	out = append(out, "GOWORK=off", "CGO_ENABLED=0")
	if c.GOOS != "" {
		out = append(out, "GOOS="+c.GOOS)
	}
	if c.GOARCH != "" {
		out = append(out, "GOARCH="+c.GOARCH)
	}
	cfg := &packages.Config{
		Mode:  packages.LoadAllSyntax,
		Dir:   c.Dir,
		Env:   out,
		Tests: false,
	}
	pkgs, err := packages.Load(cfg, "./...")
	if err != nil {
		return nil, fmt.Errorf("load: %w", err)
	}
	if len(pkgs) < 50 {
		return nil, fmt.Errorf("load: only %d packages loaded from %s (expected >= 50)", len(pkgs), c.Dir)
	}
	var errs []string
	packages.Visit(pkgs, nil, func(p *packages.Package) {
		for _, e := range p.Errors {
			errs = append(errs, e.Error())
		}
	})
	if len(errs) > 0 {
		sort.Strings(errs)
		if len(errs) > 10 {
			errs = errs[:10]
		}
		return nil, fmt.Errorf("load: type/parse errors in %s:\n  %s", c, strings.Join(errs, "\n  "))
	}
	prog, spkgs := ssautil.AllPackages(pkgs, ssa.InstantiateGenerics)
	prog.Build()
	p := &Prog{Cfg: c, Fset: pkgs[0].Fset, Pkgs: pkgs, SSA: prog,
		All: map[string]*packages.Package{}, SSAPkgs: map[string]*ssa.Package{}}
	packages.Visit(pkgs, nil, func(pk *packages.Package) { p.All[pk.PkgPath] = pk })
	for _, sp := range spkgs {
		if sp != nil {
			p.SSAPkgs[sp.Pkg.Path()] = sp
		}
	}
	for _, sp := range prog.AllPackages() {
		p.SSAPkgs[sp.Pkg.Path()] = sp
	}
	return p, nil
}

// InModule reports whether a package path belongs to the analysed module.
func InModule(path string) bool {
	return path == ModPath || strings.HasPrefix(path, ModPath+"/")
}

// CallGraph returns the VTA call graph (seeded by CHA), built lazily.
func (p *Prog) CallGraph() *callgraph.Graph {
	p.cgOnce.Do(func() {
		p.allFuncs = ssautil.AllFunctions(p.SSA)
		p.NumFuncs = len(p.allFuncs)
		p.chaGraph = cha.CallGraph(p.SSA)
		p.cg = vta.CallGraph(p.allFuncs, p.chaGraph)
	})
	return p.cg
}

// CHAGraph returns the CHA call graph (superset of VTA).
func (p *Prog) CHAGraph() *callgraph.Graph {
	p.CallGraph()
	return p.chaGraph
}

// AllFunctions returns every function of the program (incl. anonymous and
// dependencies).
func (p *Prog) AllFunctions() map[*ssa.Function]bool {
	p.CallGraph()
	return p.allFuncs
}

// ModuleFunctions returns every source function (incl. closures) defined in
// the module, sorted by position.
func (p *Prog) ModuleFunctions() []*ssa.Function {
	p.mfOnce.Do(func() { p.modFns = p.moduleFunctions() })
	return p.modFns
}

func (p *Prog) moduleFunctions() []*ssa.Function {
	var fns []*ssa.Function
	for fn := range p.AllFunctions() {
		if fn.Blocks == nil {
			continue
		}
		if fn.Synthetic != "" && !strings.HasPrefix(fn.Synthetic, "instance of") {
			continue // wrappers, thunks, bound methods, package initialisers
		}
		if !InModule(FnPkgPath(fn)) {
			continue
		}
		fns = append(fns, fn)
	}
	sort.Slice(fns, func(i, j int) bool {
		if fns[i].Pos() != fns[j].Pos() {
			return fns[i].Pos() < fns[j].Pos()
		}
		return fns[i].String() < fns[j].String()
	})
	return fns
}

// FnPkgPath returns the package path of fn (closures: of the enclosing
// function; instantiations of generic functions: of their origin).
func FnPkgPath(fn *ssa.Function) string {
	for fn != nil && fn.Parent() != nil {
		fn = fn.Parent()
	}
	if fn == nil {
		return ""
	}
	if fn.Pkg != nil {
		return fn.Pkg.Pkg.Path()
	}
	if o := fn.Origin(); o != nil && o.Pkg != nil {
		return o.Pkg.Pkg.Path()
	}
	if fn.Object() != nil && fn.Object().Pkg() != nil {
		return fn.Object().Pkg().Path()
	}
	return ""
}

// Pos renders a position relative to the repository root.
func (p *Prog) Pos(pos token.Pos) string {
	if !pos.IsValid() {
		return "-"
	}
	ps := p.Fset.Position(pos)
	f := ps.Filename
	if p.Cfg.Dir != "" {
		if rel, ok := strings.CutPrefix(f, strings.TrimSuffix(p.Cfg.Dir, "/")+"/"); ok {
			f = rel
		}
	}
	return fmt.Sprintf("%s:%d", f, ps.Line)
}

package kit

import (
	"golang.org/x/tools/go/ssa"
)

// Helpers added by the C01/C02/C03/C05 retrofit: primitives that let a rule
// say "wherever the operation sits" instead of "the operation sits in
// function X".

// moduleCallee returns the module function with a body that a plain call
// instruction enters (static callee or immediately invoked closure), or nil.
func moduleCallee(ins ssa.Instruction) *ssa.Function {
	call, ok := ins.(*ssa.Call)
	if !ok {
		return nil
	}
	g := call.Call.StaticCallee()
	if g == nil {
		if mc, ok := call.Call.Value.(*ssa.MakeClosure); ok {
			g, _ = mc.Fn.(*ssa.Function)
		}
	}
	if g == nil || g.Blocks == nil || !InModule(FnPkgPath(g)) {
		return nil
	}
	return g
}

// VisitDown evaluates the spec on fn with the given entry value and calls f
// for every instruction with the fact holding before it; at each plain call
// to a module function with a body it descends into the callee with the
// caller's fact before the call as entry value (depth levels). Unlike Holds
// this is context sensitive: a helper shared by several callers is judged
// in the context of the walk's root only. Use it for obligations of the
// form "every X reached from handler H happens under fact F".
func (s *Spec) VisitDown(fn *ssa.Function, entry bool, depth int, f func(ins ssa.Instruction, before bool)) {
	s.visitDown(fn, entry, depth, nil, map[*ssa.Function]bool{}, f)
}

// VisitDownIf is VisitDown restricted to callees accepted by into (e.g. "g is
// a helper of the root": p.OnlyReachedVia(g, 2, root)), so that operations
// nested in unrelated, widely shared callees are not attributed to the root.
func (s *Spec) VisitDownIf(fn *ssa.Function, entry bool, depth int, into func(*ssa.Function) bool, f func(ins ssa.Instruction, before bool)) {
	s.visitDown(fn, entry, depth, into, map[*ssa.Function]bool{}, f)
}

func (s *Spec) visitDown(fn *ssa.Function, entry bool, depth int, into func(*ssa.Function) bool, busy map[*ssa.Function]bool, f func(ins ssa.Instruction, before bool)) {
	if fn == nil || fn.Blocks == nil || busy[fn] {
		return
	}
	busy[fn] = true
	defer delete(busy, fn)
	fl := s.On(fn, entry)
	for _, b := range fn.Blocks {
		for _, ins := range b.Instrs {
			before := fl.Before(ins)
			f(ins, before)
			if depth <= 0 {
				continue
			}
			if g := moduleCallee(ins); g != nil && g != fn && (into == nil || into(g)) {
				s.visitDown(g, before, depth-1, into, busy, f)
			}
			// a deferred module function runs at the function's exits: its entry
			// value is the conjunction of the fact over all normal returns
			if d, ok := ins.(*ssa.Defer); ok {
				g := d.Call.StaticCallee()
				if g == nil {
					if mc, ok := d.Call.Value.(*ssa.MakeClosure); ok {
						g, _ = mc.Fn.(*ssa.Function)
					}
				}
				if g != nil && g.Blocks != nil && g != fn && InModule(FnPkgPath(g)) && (into == nil || into(g)) {
					s.visitDown(g, len(fl.FailingReturns()) == 0, depth-1, into, busy, f)
				}
			}
		}
	}
}

// Visit is one instruction seen by VisitDownAll with the value of each spec
// before it.
type Visit struct {
	Ins   ssa.Instruction
	Facts []bool
}

// VisitDownAll runs VisitDownIf for several specs over the same walk (all
// entry values false) and zips the results: Facts[i] is specs[i] before Ins
// in the calling context of the walk.
func VisitDownAll(fn *ssa.Function, depth int, into func(*ssa.Function) bool, specs ...*Spec) []Visit {
	var out []Visit
	for i, s := range specs {
		j := 0
		s.VisitDownIf(fn, false, depth, into, func(ins ssa.Instruction, before bool) {
			if i == 0 {
				out = append(out, Visit{Ins: ins, Facts: make([]bool, len(specs))})
			}
			if j < len(out) && out[j].Ins == ins {
				out[j].Facts[i] = before
			}
			j++
		})
	}
	return out
}

// OnlyReachedVia reports whether every call-graph path into fn passes through
// one of the gate functions within `depth` caller levels: each in-edge of fn
// comes from a gate, or from a function that itself is only reached via a
// gate. Synthetic wrappers (bound methods, pointer-receiver thunks) without
// callers are ignored. A function without callers that is not a gate, or a
// chain longer than depth, yields false.
func (p *Prog) OnlyReachedVia(fn *ssa.Function, depth int, gates ...*ssa.Function) bool {
	return p.onlyReachedVia(fn, depth, gates, map[*ssa.Function]bool{})
}

func (p *Prog) onlyReachedVia(fn *ssa.Function, depth int, gates []*ssa.Function, busy map[*ssa.Function]bool) bool {
	isGate := func(f *ssa.Function) bool {
		for _, g := range gates {
			if f == g {
				return true
			}
			// closures of a gate belong to the gate
			for q := f.Parent(); q != nil; q = q.Parent() {
				if q == g {
					return true
				}
			}
		}
		return false
	}
	if isGate(fn) {
		return true
	}
	if busy[fn] {
		return true // recursion inside the cone
	}
	edges := p.CallersOf(fn)
	if len(edges) == 0 {
		return fn.Synthetic != ""
	}
	if depth <= 0 {
		return false
	}
	busy[fn] = true
	defer delete(busy, fn)
	for _, e := range edges {
		cf := e.Caller.Func
		if cf == nil {
			return false
		}
		d := depth - 1
		if cf.Synthetic != "" {
			d = depth // wrappers do not count as a level
		}
		if !p.onlyReachedVia(cf, d, gates, busy) {
			return false
		}
	}
	return true
}

// ArgsOfParam maps a parameter of a module function to the argument values
// bound to it at every static call site of the function. ok is false when v
// is not a parameter, the function has no call site, or its calling context
// is not enumerable (spawned / deferred / used as a value).
func (p *Prog) ArgsOfParam(v ssa.Value) (args []ssa.Value, ok bool) {
	par, isPar := v.(*ssa.Parameter)
	if !isPar || par.Parent() == nil {
		return nil, false
	}
	fn := par.Parent()
	idx := -1
	for i, q := range fn.Params {
		if q == par {
			idx = i
		}
	}
	if idx < 0 {
		return nil, false
	}
	sites := p.StaticCallSites(fn)
	if len(sites) == 0 {
		return nil, false
	}
	for _, s := range sites {
		if s == nil {
			return nil, false
		}
		cc := CallOf(s)
		if cc == nil || cc.IsInvoke() || idx >= len(cc.Args) {
			return nil, false
		}
		args = append(args, cc.Args[idx])
	}
	return args, true
}

// HoldsForValue reports whether pred accepts v, or, when v is a parameter
// of a helper, accepts the argument bound to it at every static call site
// (recursively, `up` levels): "the value is X wherever it comes from".
func (p *Prog) HoldsForValue(v ssa.Value, up int, pred func(ssa.Value) bool) bool {
	if pred(v) {
		return true
	}
	if up <= 0 {
		return false
	}
	args, ok := p.ArgsOfParam(v)
	if !ok {
		return false
	}
	for _, a := range args {
		if !p.HoldsForValue(a, up-1, pred) {
			return false
		}
	}
	return true
}

// FuncsDeep returns fn, its closures and (to the given depth) the module
// functions with a body entered by plain calls from them (same package as fn
// unless anyPkg), each once: the body of fn "with helpers inlined".
func (p *Prog) FuncsDeep(fn *ssa.Function, depth int, anyPkg bool) []*ssa.Function {
	var out []*ssa.Function
	seen := map[*ssa.Function]bool{}
	var walk func(g *ssa.Function, d int)
	walk = func(g *ssa.Function, d int) {
		if seen[g] {
			return
		}
		seen[g] = true
		out = append(out, g)
		for _, a := range g.AnonFuncs {
			walk(a, d)
		}
		if d <= 0 {
			return
		}
		Instrs(g, func(ins ssa.Instruction) {
			var callee *ssa.Function
			switch x := ins.(type) {
			case *ssa.Call:
				callee = moduleCallee(x)
			case *ssa.Defer:
				callee = x.Call.StaticCallee()
			}
			if callee == nil || callee.Blocks == nil || !InModule(FnPkgPath(callee)) {
				return
			}
			if !anyPkg && FnPkgPath(callee) != FnPkgPath(fn) {
				return
			}
			walk(callee, d-1)
		})
	}
	walk(fn, depth)
	return out
}

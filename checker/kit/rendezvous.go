package kit

import (
	"go/types"
	"sort"

	"golang.org/x/tools/go/ssa"
)

// K11 rendezvous completeness for request structs that carry their reply
// channel in a field.
//
// Responder: a blocking select that *sends* on x.F (x of struct type T, F a
// channel field) together with other receive arms ("escapes"). Requester: a
// receive on y.F (plain or in a select) for the same (T, F), together with
// its own escapes. The responder may take an escape instead of replying; if
// the requester is not listening on the same channel it blocks for ever.

// ChanRef names a channel by where it lives: a field of the request struct
// T (Req=true) or a field of some other struct (the manager's closeC), or
// "other" for anything else (timers, context).
type ChanRef struct {
	Req   bool
	Field *types.Var
	Desc  string
}

func (r ChanRef) key() string {
	if r.Field != nil {
		if r.Req {
			return "req." + r.Field.Origin().Name()
		}
		return "obj." + r.Field.Origin().Name()
	}
	return "other:" + r.Desc
}

// ReplySite is one responder or requester select.
type ReplySite struct {
	Fn      *ssa.Function
	Instr   ssa.Instruction
	T       *types.Named
	F       *types.Var
	Escapes []ChanRef
	// Buffered is set for requester sites whose reply channel was made
	// with capacity >= 1 in the same function (a send can never block).
	Buffered bool
	HasDefault bool
}

func structOfField(e *Expr) *types.Named {
	if e == nil || (e.Kind != "field" && e.Kind != "fieldaddr") || e.Args[0].V == nil {
		// struct value built in place
		if e != nil && e.Kind == "field" && e.Args[0] != nil {
			return nil
		}
		return nil
	}
	t := e.Args[0].V.Type()
	if p, ok := t.Underlying().(*types.Pointer); ok {
		t = p.Elem()
	}
	n, _ := t.(*types.Named)
	return n
}

// FindRendezvous scans module code for responder and requester sites.
func (p *Prog) FindRendezvous() (responders, requesters []ReplySite) {
	// request types: named struct types that are the element type of some
	// channel (they travel from requester to responder)
	travels := map[*types.TypeName]bool{}
	noteChan := func(t types.Type) {
		ch, ok := t.Underlying().(*types.Chan)
		if !ok {
			return
		}
		el := ch.Elem()
		if p, ok := el.Underlying().(*types.Pointer); ok {
			el = p.Elem()
		}
		if n, ok := el.(*types.Named); ok {
			travels[n.Obj()] = true
		}
	}
	for _, fn := range p.ModuleFunctions() {
		Instrs(fn, func(ins ssa.Instruction) {
			if v, ok := ins.(ssa.Value); ok {
				noteChan(v.Type())
			}
		})
		for _, prm := range fn.Params {
			noteChan(prm.Type())
		}
	}
	for _, fn := range p.ModuleFunctions() {
		// map: values stored into fields of a T literal in this function
		// (requester side: which local value became req.G)
		stored := map[ssa.Value]*types.Var{}
		Instrs(fn, func(ins ssa.Instruction) {
			if st, ok := ins.(*ssa.Store); ok {
				if fa, ok := st.Addr.(*ssa.FieldAddr); ok {
					if s := derefStruct(fa.X.Type()); s != nil {
						stored[st.Val] = s.Field(fa.Field)
					}
				}
			}
		})
		classify := func(ch ssa.Value, T *types.Named) ChanRef {
			e := Canon(ch)
			if e.Kind == "field" {
				if n := structOfField(e); n != nil && T != nil && n.Obj() == T.Obj() {
					return ChanRef{Req: true, Field: e.Field, Desc: e.String()}
				}
				return ChanRef{Field: e.Field, Desc: e.String()}
			}
			if f, ok := stored[ch]; ok {
				// a local that was also stored into the request struct
				if T != nil {
					if st, ok := T.Underlying().(*types.Struct); ok {
						for i := 0; i < st.NumFields(); i++ {
							if st.Field(i).Origin() == f.Origin() {
								return ChanRef{Req: true, Field: f, Desc: e.String()}
							}
						}
					}
				}
			}
			return ChanRef{Desc: e.String()}
		}
		Instrs(fn, func(ins ssa.Instruction) {
			sel, ok := ins.(*ssa.Select)
			if !ok {
				return
			}
			for i, st := range sel.States {
				e := Canon(st.Chan)
				if e.Kind != "field" {
					continue
				}
				T := structOfField(e)
				if T == nil || T.Obj().Pkg() == nil || !InModule(T.Obj().Pkg().Path()) || !travels[T.Obj()] {
					continue
				}
				if _, isChan := e.Field.Type().Underlying().(*types.Chan); !isChan {
					continue
				}
				site := ReplySite{Fn: fn, Instr: sel, T: T, F: e.Field, HasDefault: !sel.Blocking}
				for j, o := range sel.States {
					if j == i {
						continue
					}
					site.Escapes = append(site.Escapes, classify(o.Chan, T))
				}
				if st.Dir == types.SendOnly {
					// only fields that are reply channels *of a request*, i.e.
					// the struct value itself was received from a channel or is
					// a parameter: approximated by "some escape or none"
					responders = append(responders, site)
				} else {
					requesters = append(requesters, site)
				}
			}
		})
		// plain receives <-y.F
		Instrs(fn, func(ins ssa.Instruction) {
			u, ok := ins.(*ssa.UnOp)
			if !ok || u.Op.String() != "<-" {
				return
			}
			e := Canon(u.X)
			if e.Kind != "field" {
				return
			}
			T := structOfField(e)
			if T == nil || T.Obj().Pkg() == nil || !InModule(T.Obj().Pkg().Path()) || !travels[T.Obj()] {
				return
			}
			requesters = append(requesters, ReplySite{Fn: fn, Instr: u, T: T, F: e.Field})
		})
	}
	// buffered reply channels: stores of make(chan, cap>=1) into T.F
	buffered := map[*types.Var]bool{}
	unbuffered := map[*types.Var]bool{}
	for _, fn := range p.ModuleFunctions() {
		Instrs(fn, func(ins ssa.Instruction) {
			st, ok := ins.(*ssa.Store)
			if !ok {
				return
			}
			fa, ok := st.Addr.(*ssa.FieldAddr)
			if !ok {
				return
			}
			s := derefStruct(fa.X.Type())
			if s == nil {
				return
			}
			f := s.Field(fa.Field)
			if mc, ok := st.Val.(*ssa.MakeChan); ok {
				if n, ok := ConstInt(mc.Size); ok && n >= 1 {
					buffered[f] = true
				} else {
					unbuffered[f] = true
				}
			}
		})
	}
	for i := range requesters {
		if buffered[requesters[i].F] && !unbuffered[requesters[i].F] {
			requesters[i].Buffered = true
		}
	}
	for i := range responders {
		if buffered[responders[i].F] && !unbuffered[responders[i].F] {
			responders[i].Buffered = true
		}
	}
	sortSites := func(s []ReplySite) {
		sort.SliceStable(s, func(i, j int) bool { return s[i].Instr.Pos() < s[j].Instr.Pos() })
	}
	sortSites(responders)
	sortSites(requesters)
	return
}

// MissingEscapes returns the responder escapes that the requester does not
// listen on.
func MissingEscapes(resp, req ReplySite) []ChanRef {
	have := map[string]bool{}
	for _, e := range req.Escapes {
		have[e.key()] = true
	}
	var out []ChanRef
	for _, e := range resp.Escapes {
		if !have[e.key()] {
			out = append(out, e)
		}
	}
	return out
}

package kit

import (
	"fmt"
	"go/types"
	"strings"

	"golang.org/x/tools/go/ssa"
)

// AnchorError is raised (by panic) when a slot cannot be resolved. The CLI
// turns it into exit status 2: the check is broken, not the property.
type AnchorError struct{ Msg string }

func (e AnchorError) Error() string { return "unresolved anchor: " + e.Msg }

func anchorFail(format string, args ...any) {
	panic(AnchorError{fmt.Sprintf(format, args...)})
}

func full(pkg string) string {
	switch {
	case pkg == "" || pkg == ".":
		return ModPath
	case InModule(pkg):
		return pkg
	case strings.HasPrefix(pkg, "internal/") || pkg == "torrent" || pkg == "rainrpc":
		return ModPath + "/" + pkg
	}
	return pkg
}

// Pkg resolves a package by path (module-relative paths accepted).
func (p *Prog) Pkg(path string) *ssa.Package {
	sp := p.SSAPkgs[full(path)]
	if sp == nil {
		anchorFail("package %s", path)
	}
	return sp
}

// TryFunc resolves a function or method. name forms: "Func",
// "(*T).Method", "(T).Method", "T.Method", and "Func$1" / "(*T).M$2" for
// closures. Returns nil when not found.
func (p *Prog) TryFunc(pkg, name string) *ssa.Function {
	sp := p.SSAPkgs[full(pkg)]
	if sp == nil {
		return nil
	}
	base, anon, _ := strings.Cut(name, "$")
	var fn *ssa.Function
	if strings.HasPrefix(base, "(") || strings.Contains(base, ".") {
		recv, meth, _ := strings.Cut(strings.TrimPrefix(base, "("), ".")
		recv = strings.TrimSuffix(recv, ")")
		ptr := strings.HasPrefix(recv, "*")
		recv = strings.TrimPrefix(recv, "*")
		tn, _ := sp.Pkg.Scope().Lookup(recv).(*types.TypeName)
		if tn == nil {
			return nil
		}
		var t types.Type = tn.Type()
		if ptr {
			t = types.NewPointer(t)
		}
		sel := p.SSA.MethodSets.MethodSet(t).Lookup(sp.Pkg, meth)
		if sel == nil {
			// try pointer receiver for convenience
			sel = p.SSA.MethodSets.MethodSet(types.NewPointer(tn.Type())).Lookup(sp.Pkg, meth)
		}
		if sel == nil {
			return nil
		}
		fn = p.SSA.MethodValue(sel)
		// unwrap promoted/synthetic wrappers to declared method
		if fn != nil && fn.Synthetic != "" {
			if obj, ok := sel.Obj().(*types.Func); ok {
				if d := p.SSA.FuncValue(obj); d != nil {
					fn = d
				}
			}
		}
	} else {
		fn = sp.Func(base)
	}
	if fn == nil {
		return nil
	}
	if anon != "" {
		for _, part := range strings.Split(anon, "$") {
			var idx int
			fmt.Sscanf(part, "%d", &idx)
			if idx < 1 || idx > len(fn.AnonFuncs) {
				return nil
			}
			fn = fn.AnonFuncs[idx-1]
		}
	}
	return fn
}

// Func is TryFunc that fails the check on an unresolved anchor.
func (p *Prog) Func(pkg, name string) *ssa.Function {
	fn := p.TryFunc(pkg, name)
	if fn == nil {
		anchorFail("function %s.%s", pkg, name)
	}
	if fn.Blocks == nil {
		anchorFail("function %s.%s has no body", pkg, name)
	}
	return fn
}

// FuncObj resolves a *types.Func for a function or method, also for
// functions outside the module (no body needed).
func (p *Prog) FuncObj(pkg, name string) *types.Func {
	pk := p.All[full(pkg)]
	if pk == nil {
		anchorFail("package %s", pkg)
	}
	if strings.HasPrefix(name, "(") || strings.Contains(name, ".") {
		recv, meth, _ := strings.Cut(strings.TrimPrefix(name, "("), ".")
		recv = strings.TrimSuffix(recv, ")")
		recv = strings.TrimPrefix(recv, "*")
		tn, _ := pk.Types.Scope().Lookup(recv).(*types.TypeName)
		if tn == nil {
			anchorFail("type %s.%s", pkg, recv)
		}
		obj, _, _ := types.LookupFieldOrMethod(tn.Type(), true, pk.Types, meth)
		f, _ := obj.(*types.Func)
		if f == nil {
			anchorFail("method %s.%s", pkg, name)
		}
		return f
	}
	f, _ := pk.Types.Scope().Lookup(name).(*types.Func)
	if f == nil {
		anchorFail("func %s.%s", pkg, name)
	}
	return f
}

// Named resolves a named type.
func (p *Prog) Named(pkg, name string) *types.Named {
	pk := p.All[full(pkg)]
	if pk == nil {
		anchorFail("package %s", pkg)
	}
	tn, _ := pk.Types.Scope().Lookup(name).(*types.TypeName)
	if tn == nil {
		anchorFail("type %s.%s", pkg, name)
	}
	n, _ := tn.Type().(*types.Named)
	if n == nil {
		anchorFail("type %s.%s is not a named type", pkg, name)
	}
	return n
}

// Field resolves a struct field object.
func (p *Prog) Field(pkg, typ, field string) *types.Var {
	n := p.Named(pkg, typ)
	st, _ := n.Underlying().(*types.Struct)
	if st == nil {
		anchorFail("type %s.%s is not a struct", pkg, typ)
	}
	for i := 0; i < st.NumFields(); i++ {
		if st.Field(i).Name() == field {
			return st.Field(i)
		}
	}
	anchorFail("field %s.%s.%s", pkg, typ, field)
	return nil
}

// Const resolves a package-level constant.
func (p *Prog) Const(pkg, name string) *types.Const {
	pk := p.All[full(pkg)]
	if pk == nil {
		anchorFail("package %s", pkg)
	}
	c, _ := pk.Types.Scope().Lookup(name).(*types.Const)
	if c == nil {
		anchorFail("const %s.%s", pkg, name)
	}
	return c
}

// Global resolves a package-level variable.
func (p *Prog) Global(pkg, name string) *types.Var {
	pk := p.All[full(pkg)]
	if pk == nil {
		anchorFail("package %s", pkg)
	}
	c, _ := pk.Types.Scope().Lookup(name).(*types.Var)
	if c == nil {
		anchorFail("var %s.%s", pkg, name)
	}
	return c
}

// FuncName renders a function in the same form accepted by Func:
// "pkg: (*T).M$1".
func FuncName(fn *ssa.Function) string {
	if fn == nil {
		return "<nil>"
	}
	if fn.Parent() != nil {
		par := fn.Parent()
		for i, a := range par.AnonFuncs {
			if a == fn {
				return fmt.Sprintf("%s$%d", FuncName(par), i+1)
			}
		}
	}
	if fn.Package() != nil {
		s := fn.RelString(fn.Package().Pkg)
		pp := fn.Package().Pkg.Path()
		pp = strings.TrimPrefix(pp, ModPath+"/")
		return pp + ":" + s
	}
	if pp := FnPkgPath(fn); pp != "" {
		return strings.TrimPrefix(pp, ModPath+"/") + ":" + strings.TrimPrefix(fn.String(), pp+".")
	}
	return fn.String()
}

package kit

import (
	"go/types"
	"sort"

	"golang.org/x/tools/go/callgraph"
	"golang.org/x/tools/go/ssa"
)

// Site is a call site of a callee inside a module function.
type Site struct {
	Fn    *ssa.Function
	Instr ssa.CallInstruction
}

// CallSites lists every call/go/defer site in module code whose static
// callee object (or invoked interface method) is obj. Method values
// (bound-method closures) are reported as sites of the synthetic bound
// wrapper's creation via MethodValueSites instead.
func (p *Prog) CallSites(obj *types.Func) []Site {
	var out []Site
	for _, fn := range p.ModuleFunctions() {
		Instrs(fn, func(ins ssa.Instruction) {
			ci, ok := ins.(ssa.CallInstruction)
			if !ok {
				return
			}
			if CalleeObj(ci.Common()) == obj {
				out = append(out, Site{fn, ci})
			}
		})
	}
	return out
}

// FuncRefs lists instructions in module code that reference fn as a value
// (not as the static callee of a call): method values, function values
// passed as arguments, closures.
func (p *Prog) FuncRefs(obj *types.Func) []Site {
	var out []Site
	target := p.SSA.FuncValue(obj)
	for _, fn := range p.ModuleFunctions() {
		Instrs(fn, func(ins ssa.Instruction) {
			for _, op := range ins.Operands(nil) {
				if *op == nil {
					continue
				}
				switch v := (*op).(type) {
				case *ssa.Function:
					isCallee := false
					if ci, ok := ins.(ssa.CallInstruction); ok && ci.Common().Value == v {
						isCallee = true
					}
					if isCallee {
						continue
					}
					if v == target || (v.Synthetic != "" && boundTarget(v) == obj) {
						ci, _ := ins.(ssa.CallInstruction)
						out = append(out, Site{fn, ci})
					}
				}
			}
			if mc, ok := ins.(*ssa.MakeClosure); ok {
				if f, ok := mc.Fn.(*ssa.Function); ok && f.Synthetic != "" && boundTarget(f) == obj {
					out = append(out, Site{fn, nil})
				}
			}
		})
	}
	return out
}

// boundTarget returns the method a synthetic bound-method wrapper / thunk
// calls.
func boundTarget(f *ssa.Function) *types.Func {
	var res *types.Func
	Instrs(f, func(ins ssa.Instruction) {
		if c, ok := ins.(*ssa.Call); ok {
			if o := CalleeObj(&c.Call); o != nil {
				res = o
			}
		}
	})
	return res
}

// Callees returns the possible callees of a call instruction: the static
// callee if any, otherwise the VTA targets.
func (p *Prog) Callees(ci ssa.CallInstruction) []*ssa.Function {
	if fn := ci.Common().StaticCallee(); fn != nil {
		return []*ssa.Function{fn}
	}
	cg := p.CallGraph()
	n := cg.Nodes[ci.Parent()]
	if n == nil {
		return nil
	}
	var out []*ssa.Function
	for _, e := range n.Out {
		if e.Site == ci && e.Callee != nil {
			out = append(out, e.Callee.Func)
		}
	}
	sort.Slice(out, func(i, j int) bool { return out[i].String() < out[j].String() })
	return out
}

// Reach computes the set of functions reachable from roots. If followGo is
// false, `go` edges are not followed (same-goroutine closure). Calls to
// closures created in a reachable function are followed through the call
// graph; additionally closures *defined* in a reachable function and
// invoked via defer are followed by the graph as well.
func (p *Prog) Reach(roots []*ssa.Function, followGo bool, stop func(*ssa.Function) bool) map[*ssa.Function]bool {
	cg := p.CallGraph()
	seen := map[*ssa.Function]bool{}
	var work []*ssa.Function
	for _, r := range roots {
		if r != nil && !seen[r] {
			seen[r] = true
			work = append(work, r)
		}
	}
	for len(work) > 0 {
		fn := work[len(work)-1]
		work = work[:len(work)-1]
		n := cg.Nodes[fn]
		if n == nil {
			continue
		}
		for _, e := range n.Out {
			if e.Callee == nil || e.Callee.Func == nil {
				continue
			}
			if _, isGo := e.Site.(*ssa.Go); isGo && !followGo {
				continue
			}
			c := e.Callee.Func
			if seen[c] || (stop != nil && stop(c)) {
				continue
			}
			seen[c] = true
			work = append(work, c)
		}
	}
	return seen
}

// CallersOf returns the call-graph in-edges of fn.
func (p *Prog) CallersOf(fn *ssa.Function) []*callgraph.Edge {
	n := p.CallGraph().Nodes[fn]
	if n == nil {
		return nil
	}
	out := append([]*callgraph.Edge(nil), n.In...)
	sort.Slice(out, func(i, j int) bool {
		if out[i].Caller.Func.String() != out[j].Caller.Func.String() {
			return out[i].Caller.Func.String() < out[j].Caller.Func.String()
		}
		return out[i].Pos() < out[j].Pos()
	})
	return out
}

// ---- mod summaries ----------------------------------------------------

// storers returns the set of functions that may store to field f,
// transitively over the call graph (reverse reachability from the direct
// storers, `go` edges included conservatively). Cached per field.
func (p *Prog) storers(f *types.Var) map[*ssa.Function]bool {
	p.modMu.Lock()
	defer p.modMu.Unlock()
	if p.direct == nil {
		p.CallGraph()
		p.direct = map[*types.Var][]*ssa.Function{}
		for fn := range p.allFuncs {
			if fn.Blocks == nil {
				continue
			}
			seen := map[*types.Var]bool{}
			Instrs(fn, func(ins ssa.Instruction) {
				var addr ssa.Value
				switch x := ins.(type) {
				case *ssa.Store:
					addr = x.Addr
				case *ssa.MapUpdate:
					addr = x.Map
				default:
					return
				}
				for _, g := range Canon(addr).Fields() {
					if !seen[g] {
						seen[g] = true
						p.direct[g] = append(p.direct[g], fn)
					}
				}
			})
		}
		p.storerCache = map[*types.Var]map[*ssa.Function]bool{}
	}
	if s, ok := p.storerCache[f]; ok {
		return s
	}
	cg := p.cg
	set := map[*ssa.Function]bool{}
	work := append([]*ssa.Function(nil), p.direct[f]...)
	for _, fn := range work {
		set[fn] = true
	}
	for len(work) > 0 {
		fn := work[len(work)-1]
		work = work[:len(work)-1]
		n := cg.Nodes[fn]
		if n == nil {
			continue
		}
		for _, e := range n.In {
			if _, isGo := e.Site.(*ssa.Go); isGo {
				// the spawned goroutine's stores do not happen "during the
				// call"; cross-goroutine interference is C20's subject.
				continue
			}
			c := e.Caller.Func
			if !set[c] {
				set[c] = true
				work = append(work, c)
			}
		}
	}
	p.storerCache[f] = set
	return set
}

// CallMayStore reports whether a call instruction may (transitively) store
// to field f.
func (p *Prog) CallMayStore(ci ssa.CallInstruction, f *types.Var) bool {
	callees := p.Callees(ci)
	if len(callees) == 0 {
		// unknown callee: dynamic call with no VTA target; be conservative
		// only for module-declared fields passed by pointer - callers decide.
		return ci.Common().StaticCallee() == nil && !isBuiltinCall(ci)
	}
	st := p.storers(f)
	for _, c := range callees {
		if st[c] {
			return true
		}
	}
	return false
}

func isBuiltinCall(ci ssa.CallInstruction) bool {
	_, ok := ci.Common().Value.(*ssa.Builtin)
	return ok
}

// KillsField is the standard kill predicate for a fact about field f:
// a direct store to f (any base), or a call that may store to it.
func (p *Prog) KillsField(ins ssa.Instruction, f *types.Var) bool {
	if _, ok := StoresField(ins, f); ok {
		return true
	}
	switch x := ins.(type) {
	case *ssa.Store:
		for _, g := range Canon(x.Addr).Fields() {
			if g == f {
				return true
			}
		}
	case *ssa.MapUpdate:
		for _, g := range Canon(x.Map).Fields() {
			if g == f {
				return true
			}
		}
	case *ssa.Call:
		return p.CallMayStore(x, f)
	}
	return false
}

// StaticCallSites returns the call instructions in module code that call fn
// statically (plain calls only). A nil element means fn is also used in a
// way whose calling context is unknown (go / defer / taken as a value), so
// that callers cannot be enumerated exhaustively.
func (p *Prog) StaticCallSites(fn *ssa.Function) []ssa.Instruction {
	p.scsOnce.Do(func() {
		p.scs = map[*ssa.Function][]ssa.Instruction{}
		// calls inside a generic body target an instantiation wrapper: book every
		// site under the generic origin as well
		add := func(g *ssa.Function, ins ssa.Instruction) {
			p.scs[g] = append(p.scs[g], ins)
			if o := g.Origin(); o != nil && o != g {
				p.scs[o] = append(p.scs[o], ins)
			}
		}
		for _, f := range p.ModuleFunctions() {
			Instrs(f, func(ins ssa.Instruction) {
				switch x := ins.(type) {
				case *ssa.Call:
					if g := x.Call.StaticCallee(); g != nil {
						add(g, ins)
					}
				case *ssa.Go:
					if g := x.Call.StaticCallee(); g != nil {
						add(g, nil)
					}
				case *ssa.Defer:
					if g := x.Call.StaticCallee(); g != nil {
						add(g, nil)
					}
				}
				for _, op := range ins.Operands(nil) {
					if *op == nil {
						continue
					}
					if g, ok := (*op).(*ssa.Function); ok {
						if ci, isCall := ins.(ssa.CallInstruction); isCall && ci.Common().Value == ssa.Value(g) {
							continue
						}
						add(g, nil)
					}
				}
			})
		}
	})
	return p.scs[fn]
}

// InstrsDeep visits the instructions of fn in block order and, at each plain
// call to a module function with a body (same package as fn unless anyPkg),
// the callee's instructions (to the given depth) before continuing: an
// "inlined view" for table extractors, so that moving a block into a helper
// does not hide it.
func (p *Prog) InstrsDeep(fn *ssa.Function, depth int, anyPkg bool, f func(ssa.Instruction)) {
	seen := map[*ssa.Function]bool{}
	var walk func(g *ssa.Function, d int)
	walk = func(g *ssa.Function, d int) {
		if seen[g] {
			return
		}
		seen[g] = true
		defer delete(seen, g)
		for _, b := range g.Blocks {
			for _, ins := range b.Instrs {
				f(ins)
				if d <= 0 {
					continue
				}
				call, ok := ins.(*ssa.Call)
				if !ok {
					continue
				}
				callee := call.Call.StaticCallee()
				if callee == nil {
					if mc, ok := call.Call.Value.(*ssa.MakeClosure); ok {
						callee, _ = mc.Fn.(*ssa.Function)
					}
				}
				if callee == nil || callee.Blocks == nil || !InModule(FnPkgPath(callee)) {
					continue
				}
				if !anyPkg && FnPkgPath(callee) != FnPkgPath(fn) {
					continue
				}
				walk(callee, d-1)
			}
		}
	}
	walk(fn, depth)
}

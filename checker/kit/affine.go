package kit

// Affine-relation analysis (Karr 1976): a forward abstract interpretation whose
// abstract value is an affine subspace — a conjunction of linear equalities
// between the integer variables of one function (SSA registers, address-taken
// locals / captured cells and their integer struct fields, slice offsets and
// lengths, ghost variables injected by a rule). Join is the affine hull, so
// every chain has length <= number of variables and no widening is needed.
// Closures and small static callees are analysed in line (bounded depth), which
// is what makes the cursor arithmetic of rain's geometry code (closures over
// captured cursors) analysable.
//
// The analysis is sound under the stated assumption that the arithmetic does
// not overflow and conversions between integer types do not truncate; it
// ignores inequality guards (a path that is infeasible only because of an
// inequality is still considered) and uses equality guards.

import (
	"fmt"
	"go/constant"
	"go/token"
	"go/types"
	"math/big"
	"sort"
	"strings"

	"golang.org/x/tools/go/ssa"
)

// ---------------------------------------------------------------- expressions

type AffExpr struct {
	Coef  map[string]*big.Rat
	Const *big.Rat
}

func AffConst(n int64) *AffExpr {
	return &AffExpr{Coef: map[string]*big.Rat{}, Const: new(big.Rat).SetInt64(n)}
}

func AffVar(v string) *AffExpr {
	return &AffExpr{Coef: map[string]*big.Rat{v: big.NewRat(1, 1)}, Const: new(big.Rat)}
}

func (e *AffExpr) Clone() *AffExpr {
	r := &AffExpr{Coef: map[string]*big.Rat{}, Const: new(big.Rat).Set(e.Const)}
	for k, v := range e.Coef {
		r.Coef[k] = new(big.Rat).Set(v)
	}
	return r
}

// AddScaled returns e + k*o.
func (e *AffExpr) AddScaled(o *AffExpr, k *big.Rat) *AffExpr {
	r := e.Clone()
	for v, c := range o.Coef {
		t := new(big.Rat).Mul(c, k)
		if old, ok := r.Coef[v]; ok {
			t.Add(t, old)
		}
		if t.Sign() == 0 {
			delete(r.Coef, v)
		} else {
			r.Coef[v] = t
		}
	}
	r.Const.Add(r.Const, new(big.Rat).Mul(o.Const, k))
	return r
}

func (e *AffExpr) Add(o *AffExpr) *AffExpr { return e.AddScaled(o, big.NewRat(1, 1)) }
func (e *AffExpr) Sub(o *AffExpr) *AffExpr { return e.AddScaled(o, big.NewRat(-1, 1)) }
func (e *AffExpr) Scale(k *big.Rat) *AffExpr {
	return AffConst(0).AddScaled(e, k)
}
func (e *AffExpr) IsZero() bool { return len(e.Coef) == 0 && e.Const.Sign() == 0 }

func (e *AffExpr) Vars() []string {
	var vs []string
	for v := range e.Coef {
		vs = append(vs, v)
	}
	sort.Strings(vs)
	return vs
}

func (e *AffExpr) String() string {
	var sb strings.Builder
	for _, v := range e.Vars() {
		c := e.Coef[v]
		if c.Sign() >= 0 && sb.Len() > 0 {
			sb.WriteString("+")
		}
		if c.Cmp(big.NewRat(1, 1)) == 0 {
		} else if c.Cmp(big.NewRat(-1, 1)) == 0 {
			sb.WriteString("-")
		} else {
			sb.WriteString(c.RatString() + "*")
		}
		sb.WriteString(v)
	}
	if e.Const.Sign() != 0 || sb.Len() == 0 {
		if e.Const.Sign() >= 0 && sb.Len() > 0 {
			sb.WriteString("+")
		}
		sb.WriteString(e.Const.RatString())
	}
	return sb.String()
}

// ---------------------------------------------------------------- states

type affRow struct {
	pivot string
	e     *AffExpr // e == 0, coefficient of pivot is 1, pivot occurs in no other row
}

// AffState is a conjunction of affine equalities (or bottom).
type AffState struct {
	Bottom bool
	rows   []affRow
	// variables whose current value was produced by a non-affine operation
	NonLin map[string]bool
}

func NewAffState() *AffState { return &AffState{NonLin: map[string]bool{}} }

func (s *AffState) Clone() *AffState {
	r := &AffState{Bottom: s.Bottom, NonLin: map[string]bool{}}
	for _, row := range s.rows {
		r.rows = append(r.rows, affRow{row.pivot, row.e.Clone()})
	}
	for k := range s.NonLin {
		r.NonLin[k] = true
	}
	return r
}

// Reduce rewrites e modulo the equalities of s (pivots are eliminated).
func (s *AffState) Reduce(e *AffExpr) *AffExpr {
	r := e.Clone()
	for _, row := range s.rows {
		if c, ok := r.Coef[row.pivot]; ok {
			r = r.AddScaled(row.e, new(big.Rat).Neg(c))
		}
	}
	return r
}

// Entails reports whether s implies e == 0.
func (s *AffState) Entails(e *AffExpr) bool {
	if s.Bottom {
		return true
	}
	return s.Reduce(e).IsZero()
}

// Assume adds e == 0.
func (s *AffState) Assume(e *AffExpr) {
	if s.Bottom {
		return
	}
	r := s.Reduce(e)
	if len(r.Coef) == 0 {
		if r.Const.Sign() != 0 {
			s.Bottom = true
			s.rows = nil
		}
		return
	}
	p := r.Vars()[0]
	r = r.Scale(new(big.Rat).Inv(r.Coef[p]))
	for i := range s.rows {
		if c, ok := s.rows[i].e.Coef[p]; ok {
			s.rows[i].e = s.rows[i].e.AddScaled(r, new(big.Rat).Neg(c))
		}
	}
	s.rows = append(s.rows, affRow{p, r})
}

// Havoc forgets everything about v.
func (s *AffState) Havoc(v string) {
	delete(s.NonLin, v)
	if s.Bottom {
		return
	}
	idx := -1
	for i, row := range s.rows {
		if row.pivot == v {
			idx = i
			break
		}
	}
	if idx < 0 {
		for i, row := range s.rows {
			if _, ok := row.e.Coef[v]; ok {
				idx = i
				break
			}
		}
	}
	if idx < 0 {
		return
	}
	r := s.rows[idx]
	s.rows = append(s.rows[:idx:idx], s.rows[idx+1:]...)
	if r.pivot == v {
		return // v occurred only in this row
	}
	// v is a non-pivot of r: solve r for v and substitute in the other rows
	solved := r.e.Scale(new(big.Rat).Inv(r.e.Coef[v])) // v + ... == 0
	for i := range s.rows {
		if c, ok := s.rows[i].e.Coef[v]; ok {
			s.rows[i].e = s.rows[i].e.AddScaled(solved, new(big.Rat).Neg(c))
		}
	}
	// re-normalise (r.pivot may now occur in several rows)
	old := s.rows
	s.rows = nil
	for _, row := range old {
		s.Assume(row.e)
	}
}

// Assign performs v := e (e may mention v).
func (s *AffState) Assign(v string, e *AffExpr) {
	if s.Bottom {
		return
	}
	if e == nil {
		s.Havoc(v)
		return
	}
	if _, self := e.Coef[v]; self {
		tmp := "\x00tmp"
		s.Assume(AffVar(tmp).Sub(e))
		s.Havoc(v)
		s.rename(tmp, v)
	} else {
		s.Havoc(v)
		s.Assume(AffVar(v).Sub(e))
	}
	delete(s.NonLin, v)
}

func (s *AffState) rename(from, to string) {
	old := s.rows
	s.rows = nil
	for _, row := range old {
		if c, ok := row.e.Coef[from]; ok {
			delete(row.e.Coef, from)
			row.e.Coef[to] = c
		}
		s.Assume(row.e)
	}
}

func (s *AffState) vars(into map[string]bool) {
	for _, row := range s.rows {
		for v := range row.e.Coef {
			into[v] = true
		}
	}
}

// generators: a point and a basis of the direction space, over the given variable order
func (s *AffState) generators(vars []string) (pt []*big.Rat, basis [][]*big.Rat) {
	idx := map[string]int{}
	for i, v := range vars {
		idx[v] = i
	}
	piv := map[string]*AffExpr{}
	for _, row := range s.rows {
		piv[row.pivot] = row.e
	}
	pt = make([]*big.Rat, len(vars))
	for i, v := range vars {
		pt[i] = new(big.Rat)
		if e, ok := piv[v]; ok {
			pt[i].Neg(e.Const)
		}
	}
	for _, f := range vars {
		if _, ok := piv[f]; ok {
			continue
		}
		b := make([]*big.Rat, len(vars))
		for i := range b {
			b[i] = new(big.Rat)
		}
		b[idx[f]].SetInt64(1)
		for p, e := range piv {
			if c, ok := e.Coef[f]; ok {
				b[idx[p]].Neg(c)
			}
		}
		basis = append(basis, b)
	}
	return
}

// Join is the affine hull of a and b.
func AffJoin(a, b *AffState) *AffState {
	if a.Bottom {
		return b.Clone()
	}
	if b.Bottom {
		return a.Clone()
	}
	vm := map[string]bool{}
	a.vars(vm)
	b.vars(vm)
	var vars []string
	for v := range vm {
		vars = append(vars, v)
	}
	sort.Strings(vars)
	n := len(vars)
	pa, ba := a.generators(vars)
	pb, bb := b.generators(vars)
	span := append(append([][]*big.Rat{}, ba...), bb...)
	d := make([]*big.Rat, n)
	for i := range d {
		d[i] = new(big.Rat).Sub(pb[i], pa[i])
	}
	span = append(span, d)
	// row-reduce span
	var red [][]*big.Rat
	pivCol := []int{}
	for _, v := range span {
		w := make([]*big.Rat, n)
		for i := range w {
			w[i] = new(big.Rat).Set(v[i])
		}
		for k, r := range red {
			c := w[pivCol[k]]
			if c.Sign() != 0 {
				cc := new(big.Rat).Set(c)
				for i := range w {
					w[i].Sub(w[i], new(big.Rat).Mul(cc, r[i]))
				}
			}
		}
		pc := -1
		for i := range w {
			if w[i].Sign() != 0 {
				pc = i
				break
			}
		}
		if pc < 0 {
			continue
		}
		inv := new(big.Rat).Inv(w[pc])
		for i := range w {
			w[i].Mul(w[i], inv)
		}
		for k, r := range red {
			c := r[pc]
			if c.Sign() != 0 {
				cc := new(big.Rat).Set(c)
				for i := range r {
					r[i].Sub(r[i], new(big.Rat).Mul(cc, w[i]))
				}
			}
			_ = k
		}
		red = append(red, w)
		pivCol = append(pivCol, pc)
	}
	isPiv := map[int]int{}
	for k, pc := range pivCol {
		isPiv[pc] = k
	}
	out := NewAffState()
	// nullspace of red: for every non-pivot column f: c[f]=1, c[pivCol[k]] = -red[k][f]... (transpose relation)
	// constraints c with c.v == 0 for all v in span: solve red * c = 0.
	for f := 0; f < n; f++ {
		if _, ok := isPiv[f]; ok {
			continue
		}
		e := &AffExpr{Coef: map[string]*big.Rat{}, Const: new(big.Rat)}
		e.Coef[vars[f]] = big.NewRat(1, 1)
		for k, pc := range pivCol {
			if red[k][f].Sign() != 0 {
				e.Coef[vars[pc]] = new(big.Rat).Neg(red[k][f])
			}
		}
		// constant: -c.pa
		cst := new(big.Rat)
		for v, c := range e.Coef {
			for i := range vars {
				if vars[i] == v {
					cst.Add(cst, new(big.Rat).Mul(c, pa[i]))
				}
			}
		}
		e.Const.Neg(cst)
		out.Assume(e)
	}
	for k := range a.NonLin {
		out.NonLin[k] = true
	}
	for k := range b.NonLin {
		out.NonLin[k] = true
	}
	return out
}

// AffLeq: a is at least as strong as b.
func AffLeq(a, b *AffState) bool {
	if a.Bottom {
		return true
	}
	if b.Bottom {
		return false
	}
	for _, row := range b.rows {
		if !a.Entails(row.e) {
			return false
		}
	}
	for k := range a.NonLin {
		if !b.NonLin[k] {
			return false
		}
	}
	return true
}

func (s *AffState) String() string {
	if s.Bottom {
		return "bottom"
	}
	var parts []string
	for _, row := range s.rows {
		parts = append(parts, row.e.String()+"=0")
	}
	sort.Strings(parts)
	return strings.Join(parts, "; ")
}

// ---------------------------------------------------------------- interpreter

// AffFrame is one (inlined) function activation.
type AffFrame struct {
	Fn     *ssa.Function
	Call   ssa.CallInstruction // nil for the root
	Parent *AffFrame
	locs   map[ssa.Value]string // address-valued SSA values of this frame -> location key
	depth  int
}

// Affine is one analysis run.
type Affine struct {
	Depth int
	// Ghost is called before every instruction in every pass and may change the state
	// (ghost assignments). It must be deterministic.
	Ghost func(a *Affine, fr *AffFrame, ins ssa.Instruction, st *AffState)
	// GhostEdge is called on every CFG edge (after guards, before phis).
	GhostEdge func(a *Affine, fr *AffFrame, from, to *ssa.BasicBlock, st *AffState)
	// Check is called before every instruction in the final pass only.
	Check func(a *Affine, fr *AffFrame, ins ssa.Instruction, st *AffState)
	// CheckEdge is called on every CFG edge in the final pass (after guards and ghost updates, before phis).
	CheckEdge func(a *Affine, fr *AffFrame, from, to *ssa.BasicBlock, st *AffState)
	// NilErrLen: callee objects with the contract "err == nil => n == len(arg i)" (i counts the receiver as 0).
	NilErrLen map[*types.Func]int

	ids      map[any]int
	captured map[string]bool
	Steps    int
	Inlined  map[*ssa.Function]bool
}

func (a *Affine) id(x any) int {
	if a.ids == nil {
		a.ids = map[any]int{}
	}
	if n, ok := a.ids[x]; ok {
		return n
	}
	n := len(a.ids) + 1
	a.ids[x] = n
	return n
}

func isIntType(t types.Type) bool {
	b, ok := t.Underlying().(*types.Basic)
	return ok && b.Info()&types.IsInteger != 0
}

// Reg is the variable of an integer-valued SSA register.
func (a *Affine) Reg(v ssa.Value) string {
	return fmt.Sprintf("r%d:%s", a.id(v), v.Name())
}

// Off / Len are the variables of a slice-valued SSA register (offset of its first
// element from the start of the underlying storage it was cut from, and its length).
func (a *Affine) Off(v ssa.Value) string { return fmt.Sprintf("off%d:%s", a.id(v), v.Name()) }
func (a *Affine) Len(v ssa.Value) string { return fmt.Sprintf("len%d:%s", a.id(v), v.Name()) }

// FieldOf is the variable of integer field f of a struct-valued SSA register.
func (a *Affine) FieldOf(v ssa.Value, field string) string {
	return fmt.Sprintf("s%d:%s.%s", a.id(v), v.Name(), field)
}

func isSlice(t types.Type) bool {
	_, ok := t.Underlying().(*types.Slice)
	return ok
}

// Expr gives the affine expression of an integer SSA value (nil if not an integer).
func (a *Affine) Expr(v ssa.Value) *AffExpr {
	if c, ok := v.(*ssa.Const); ok {
		if c.Value != nil && c.Value.Kind() == constant.Int {
			if n, ok := constant.Int64Val(c.Value); ok {
				return AffConst(n)
			}
		}
		if c.Value == nil && isIntType(c.Type()) {
			return AffConst(0)
		}
		return nil
	}
	if isIntType(v.Type()) {
		return AffVar(a.Reg(v))
	}
	return nil
}

// Loc resolves an address-valued SSA value to a tracked location ("" if unknown).
func (fr *AffFrame) Loc(a *Affine, v ssa.Value) string {
	if l, ok := fr.locs[v]; ok {
		return l
	}
	switch x := v.(type) {
	case *ssa.Alloc:
		if allocTrackable(x) {
			l := fmt.Sprintf("c%d:%s", a.id(x), x.Comment)
			fr.locs[v] = l
			return l
		}
	case *ssa.FieldAddr:
		base := fr.Loc(a, x.X)
		if base != "" {
			st := derefStruct(x.X.Type())
			if st != nil {
				return base + "." + st.Field(x.Field).Name()
			}
		}
	}
	return ""
}

// an Alloc is trackable if its address is only loaded from, stored to, used as the base of
// FieldAddr (same rule), bound into closures or debug-referenced.
func allocTrackable(al *ssa.Alloc) bool {
	var ok func(v ssa.Value) bool
	ok = func(v ssa.Value) bool {
		for _, r := range *v.Referrers() {
			switch u := r.(type) {
			case *ssa.Store:
				if u.Val == v {
					return false
				}
			case *ssa.UnOp, *ssa.DebugRef, *ssa.MakeClosure:
			case *ssa.FieldAddr:
				if !ok(u) {
					return false
				}
			default:
				return false
			}
		}
		return true
	}
	return ok(al)
}

func intFields(t types.Type) []string {
	st, _ := t.Underlying().(*types.Struct)
	if st == nil {
		return nil
	}
	var fs []string
	for i := 0; i < st.NumFields(); i++ {
		if isIntType(st.Field(i).Type()) {
			fs = append(fs, st.Field(i).Name())
		}
	}
	return fs
}

// Run analyses fn from an unconstrained entry state.
func (a *Affine) Run(fn *ssa.Function) {
	if a.Depth == 0 {
		a.Depth = 4
	}
	a.Inlined = map[*ssa.Function]bool{}
	a.captured = map[string]bool{}
	fr := &AffFrame{Fn: fn, locs: map[ssa.Value]string{}}
	a.analyze(fr, NewAffState(), true)
}

type affRet struct {
	st   *AffState
	vals []ssa.Value
}

// analyze runs the frame to a fix-point; returns the states at its returns.
func (a *Affine) analyze(fr *AffFrame, entry *AffState, check bool) []affRet {
	fn := fr.Fn
	a.Inlined[fn] = true
	in := map[*ssa.BasicBlock]*AffState{}
	if len(fn.Blocks) == 0 {
		return nil
	}
	in[fn.Blocks[0]] = entry
	work := []*ssa.BasicBlock{fn.Blocks[0]}
	inWork := map[*ssa.BasicBlock]bool{fn.Blocks[0]: true}
	var rets map[*ssa.BasicBlock]affRet
	pass := func(chk bool) {
		rets = map[*ssa.BasicBlock]affRet{}
		for len(work) > 0 {
			b := work[0]
			work = work[1:]
			inWork[b] = false
			st := in[b].Clone()
			a.block(fr, b, st, chk, func(to *ssa.BasicBlock, out *AffState) {
				if chk {
					return
				}
				old, ok := in[to]
				if !ok {
					in[to] = out
				} else {
					if AffLeq(out, old) {
						return
					}
					in[to] = AffJoin(old, out)
				}
				if !inWork[to] {
					inWork[to] = true
					work = append(work, to)
				}
			}, rets)
		}
	}
	pass(false)
	if check {
		// final pass over every reached block with the fix-point in-states
		for _, b := range fn.Blocks {
			if _, ok := in[b]; ok {
				work = append(work, b)
			}
		}
		pass(true)
	}
	var out []affRet
	for _, b := range fn.Blocks {
		if r, ok := rets[b]; ok {
			out = append(out, r)
		}
	}
	return out
}

func (a *Affine) block(fr *AffFrame, b *ssa.BasicBlock, st *AffState, chk bool, flow func(*ssa.BasicBlock, *AffState), rets map[*ssa.BasicBlock]affRet) {
	for _, ins := range b.Instrs {
		if _, ok := ins.(*ssa.Phi); ok {
			continue
		}
		a.Steps++
		if a.Ghost != nil {
			a.Ghost(a, fr, ins, st)
		}
		if chk && a.Check != nil {
			a.Check(a, fr, ins, st)
		}
		a.transfer(fr, ins, st, chk)
		if r, ok := ins.(*ssa.Return); ok {
			rets[b] = affRet{st, r.Results}
		}
	}
	if len(b.Instrs) == 0 {
		return
	}
	last := b.Instrs[len(b.Instrs)-1]
	for i, succ := range b.Succs {
		out := st.Clone()
		if iff, ok := last.(*ssa.If); ok {
			a.guard(fr, iff.Cond, i == 0, out)
		}
		if a.GhostEdge != nil {
			a.GhostEdge(a, fr, b, succ, out)
		}
		if chk && a.CheckEdge != nil {
			a.CheckEdge(a, fr, b, succ, out)
		}
		// phis: parallel assignment
		pi := -1
		for k, p := range succ.Preds {
			if p == b {
				pi = k
				break
			}
		}
		type asg struct {
			v string
			e *AffExpr
		}
		var as []asg
		for _, ins := range succ.Instrs {
			phi, ok := ins.(*ssa.Phi)
			if !ok {
				break
			}
			op := phi.Edges[pi]
			if isIntType(phi.Type()) {
				as = append(as, asg{a.Reg(phi), a.Expr(op)})
			} else if isSlice(phi.Type()) {
				as = append(as, asg{a.Off(phi), AffVar(a.Off(op))}, asg{a.Len(phi), AffVar(a.Len(op))})
			}
		}
		for k, x := range as {
			if x.e != nil {
				out.Assume(AffVar(fmt.Sprintf("\x00p%d", k)).Sub(x.e))
			}
		}
		for _, x := range as {
			out.Havoc(x.v)
		}
		for k, x := range as {
			if x.e != nil {
				out.rename(fmt.Sprintf("\x00p%d", k), x.v)
			}
		}
		flow(succ, out)
	}
}

// guard refines st with the branch condition (equalities only).
func (a *Affine) guard(fr *AffFrame, cond ssa.Value, taken bool, st *AffState) {
	switch c := cond.(type) {
	case *ssa.UnOp:
		if c.Op == token.NOT {
			a.guard(fr, c.X, !taken, st)
		}
	case *ssa.BinOp:
		if (c.Op == token.EQL && taken) || (c.Op == token.NEQ && !taken) {
			x, y := a.Expr(c.X), a.Expr(c.Y)
			if x != nil && y != nil {
				st.Assume(x.Sub(y))
			}
			// err == nil on a call with the "nil error => full length" contract
			a.nilErr(c, st)
		}
	}
}

func (a *Affine) nilErr(c *ssa.BinOp, st *AffState) {
	var ex *ssa.Extract
	if e, ok := c.X.(*ssa.Extract); ok && isNilConst(c.Y) {
		ex = e
	} else if e, ok := c.Y.(*ssa.Extract); ok && isNilConst(c.X) {
		ex = e
	}
	if ex == nil {
		return
	}
	call, ok := ex.Tuple.(*ssa.Call)
	if !ok {
		return
	}
	obj := CalleeObj(call.Common())
	idx, ok := a.NilErrLen[obj]
	if !ok {
		return
	}
	args := call.Call.Args
	if call.Call.IsInvoke() {
		idx-- // receiver is not in Args
	}
	if idx < 0 || idx >= len(args) {
		return
	}
	for _, r := range *call.Referrers() {
		if e0, ok := r.(*ssa.Extract); ok && e0.Index == 0 {
			st.Assume(AffVar(a.Reg(e0)).Sub(AffVar(a.Len(args[idx]))))
		}
	}
}

func isNilConst(v ssa.Value) bool {
	c, ok := v.(*ssa.Const)
	return ok && c.Value == nil
}

func (a *Affine) havocCaptured(st *AffState) {
	vm := map[string]bool{}
	st.vars(vm)
	for v := range vm {
		for c := range a.captured {
			if v == c || strings.HasPrefix(v, c+".") {
				st.Havoc(v)
			}
		}
	}
}

func (a *Affine) transfer(fr *AffFrame, ins ssa.Instruction, st *AffState, chk bool) {
	if st.Bottom {
		return
	}
	switch x := ins.(type) {
	case *ssa.Alloc:
		if l := fr.Loc(a, x); l != "" {
			el := x.Type().Underlying().(*types.Pointer).Elem()
			if isIntType(el) {
				st.Assign(l, AffConst(0))
			}
			for _, f := range intFields(el) {
				st.Assign(l+"."+f, AffConst(0))
			}
		}
	case *ssa.BinOp:
		if !isIntType(x.Type()) {
			return
		}
		l, r := a.Expr(x.X), a.Expr(x.Y)
		v := a.Reg(x)
		switch {
		case l != nil && r != nil && x.Op == token.ADD:
			st.Assign(v, l.Add(r))
		case l != nil && r != nil && x.Op == token.SUB:
			st.Assign(v, l.Sub(r))
		case l != nil && r != nil && x.Op == token.MUL && len(l.Coef) == 0:
			st.Assign(v, r.Scale(l.Const))
		case l != nil && r != nil && x.Op == token.MUL && len(r.Coef) == 0:
			st.Assign(v, l.Scale(r.Const))
		default:
			st.Havoc(v)
			st.NonLin[v] = true
		}
	case *ssa.UnOp:
		switch x.Op {
		case token.MUL:
			l := fr.Loc(a, x.X)
			if isIntType(x.Type()) {
				if l != "" {
					st.Assign(a.Reg(x), AffVar(l))
				} else {
					st.Havoc(a.Reg(x))
				}
			} else if fs := intFields(x.Type()); len(fs) > 0 {
				for _, f := range fs {
					if l != "" {
						st.Assign(a.FieldOf(x, f), AffVar(l+"."+f))
					} else {
						st.Havoc(a.FieldOf(x, f))
					}
				}
			} else if isSlice(x.Type()) {
				st.Havoc(a.Off(x))
				st.Havoc(a.Len(x))
			}
		case token.SUB:
			if e := a.Expr(x.X); e != nil && isIntType(x.Type()) {
				st.Assign(a.Reg(x), e.Scale(big.NewRat(-1, 1)))
			}
		default:
			if isIntType(x.Type()) {
				st.Havoc(a.Reg(x))
				st.NonLin[a.Reg(x)] = true
			}
		}
	case *ssa.Convert:
		if isIntType(x.Type()) {
			if e := a.Expr(x.X); e != nil {
				st.Assign(a.Reg(x), e)
			} else {
				st.Havoc(a.Reg(x))
			}
		}
	case *ssa.ChangeType:
		if isIntType(x.Type()) {
			st.Assign(a.Reg(x), a.Expr(x.X))
		} else if isSlice(x.Type()) && isSlice(x.X.Type()) {
			st.Assign(a.Off(x), AffVar(a.Off(x.X)))
			st.Assign(a.Len(x), AffVar(a.Len(x.X)))
		}
	case *ssa.Field:
		if isIntType(x.Type()) {
			st.Assign(a.Reg(x), AffVar(a.FieldOf(x.X, x.X.Type().Underlying().(*types.Struct).Field(x.Field).Name())))
		}
	case *ssa.Slice:
		if !isSlice(x.Type()) || !isSlice(x.X.Type()) {
			if isSlice(x.Type()) {
				st.Havoc(a.Off(x))
				st.Havoc(a.Len(x))
			}
			return
		}
		low := AffConst(0)
		if x.Low != nil {
			low = a.Expr(x.Low)
		}
		off, ln := a.Off(x), a.Len(x)
		if low == nil {
			st.Havoc(off)
			st.Havoc(ln)
			return
		}
		st.Assign(off, AffVar(a.Off(x.X)).Add(low))
		if x.High != nil {
			if h := a.Expr(x.High); h != nil {
				st.Assign(ln, h.Sub(low))
			} else {
				st.Havoc(ln)
			}
		} else {
			st.Assign(ln, AffVar(a.Len(x.X)).Sub(low))
		}
	case *ssa.Store:
		l := fr.Loc(a, x.Addr)
		if l == "" {
			return
		}
		el := x.Val.Type()
		if isIntType(el) {
			st.Assign(l, a.Expr(x.Val))
		} else {
			for _, f := range intFields(el) {
				if _, zero := x.Val.(*ssa.Const); zero {
					st.Assign(l+"."+f, AffConst(0))
				} else {
					st.Assign(l+"."+f, AffVar(a.FieldOf(x.Val, f)))
				}
			}
		}
	case *ssa.Call:
		a.call(fr, x, st, chk)
	case *ssa.Extract:
		// results of inlined multi-value calls are not tracked
		if isIntType(x.Type()) {
			st.Havoc(a.Reg(x))
		}
	case ssa.Value:
		if isIntType(x.Type()) {
			st.Havoc(a.Reg(x))
		} else if isSlice(x.Type()) {
			st.Havoc(a.Off(x))
			st.Havoc(a.Len(x))
		} else {
			for _, f := range intFields(x.Type()) {
				st.Havoc(a.FieldOf(x, f))
			}
		}
	}
}

func (a *Affine) call(fr *AffFrame, call *ssa.Call, st *AffState, chk bool) {
	res := func() {
		if isIntType(call.Type()) {
			st.Havoc(a.Reg(call))
		} else if isSlice(call.Type()) {
			st.Havoc(a.Off(call))
			st.Havoc(a.Len(call))
		}
	}
	cc := call.Common()
	if b, ok := cc.Value.(*ssa.Builtin); ok {
		res()
		if b.Name() == "len" && len(cc.Args) == 1 && isSlice(cc.Args[0].Type()) {
			st.Assign(a.Reg(call), AffVar(a.Len(cc.Args[0])))
		}
		return
	}
	var callee *ssa.Function
	var bindings []ssa.Value
	switch f := cc.Value.(type) {
	case *ssa.MakeClosure:
		callee, _ = f.Fn.(*ssa.Function)
		bindings = f.Bindings
	case *ssa.Function:
		if !cc.IsInvoke() {
			callee = f
		}
	}
	if callee == nil || len(callee.Blocks) == 0 || fr.depth >= a.Depth || !InModule(FnPkgPath(callee)) || a.recursive(fr, callee) {
		a.havocCaptured(st)
		res()
		return
	}
	nf := &AffFrame{Fn: callee, Call: call, Parent: fr, locs: map[ssa.Value]string{}, depth: fr.depth + 1}
	for i, fv := range callee.FreeVars {
		if i < len(bindings) {
			if l := fr.Loc(a, bindings[i]); l != "" {
				nf.locs[fv] = l
				a.captured[l] = true
			}
		}
	}
	for i, p := range callee.Params {
		if i >= len(cc.Args) {
			break
		}
		arg := cc.Args[i]
		if isIntType(p.Type()) {
			st.Assign(a.Reg(p), a.Expr(arg))
		} else if isSlice(p.Type()) {
			st.Assign(a.Off(p), AffVar(a.Off(arg)))
			st.Assign(a.Len(p), AffVar(a.Len(arg)))
		} else if l := fr.Loc(a, arg); l != "" {
			nf.locs[p] = l
			a.captured[l] = true
		}
	}
	rets := a.analyze(nf, st.Clone(), chk)
	var out *AffState
	for _, r := range rets {
		s := r.st
		if len(r.vals) == 1 && isIntType(call.Type()) {
			s.Assign(a.Reg(call), a.Expr(r.vals[0]))
		} else {
			if isIntType(call.Type()) {
				s.Havoc(a.Reg(call))
			}
		}
		if out == nil {
			out = s
		} else {
			out = AffJoin(out, s)
		}
	}
	if out == nil { // callee never returns
		st.Bottom = true
		st.rows = nil
		return
	}
	// forget the callee's registers
	pref := map[string]bool{}
	vm := map[string]bool{}
	out.vars(vm)
	for v := range vm {
		if strings.HasPrefix(v, "r") || strings.HasPrefix(v, "off") || strings.HasPrefix(v, "len") || strings.HasPrefix(v, "s") {
			pref[v] = true
		}
	}
	own := a.ownedVars(callee)
	for v := range pref {
		if own[v] {
			out.Havoc(v)
		}
	}
	*st = *out
}

func (a *Affine) recursive(fr *AffFrame, fn *ssa.Function) bool {
	for f := fr; f != nil; f = f.Parent {
		if f.Fn == fn {
			return true
		}
	}
	return false
}

// ownedVars: register variables of fn's own values (dropped when its activation ends).
func (a *Affine) ownedVars(fn *ssa.Function) map[string]bool {
	m := map[string]bool{}
	add := func(v ssa.Value) {
		if isIntType(v.Type()) {
			m[a.Reg(v)] = true
		} else if isSlice(v.Type()) {
			m[a.Off(v)] = true
			m[a.Len(v)] = true
		} else {
			for _, f := range intFields(v.Type()) {
				m[a.FieldOf(v, f)] = true
			}
		}
	}
	for _, p := range fn.Params {
		add(p)
	}
	for _, b := range fn.Blocks {
		for _, ins := range b.Instrs {
			if v, ok := ins.(ssa.Value); ok {
				add(v)
			}
		}
	}
	return m
}

// Stack renders the inline context of a frame.
func (fr *AffFrame) Stack() string {
	var parts []string
	for f := fr; f != nil; f = f.Parent {
		parts = append([]string{FuncName(f.Fn)}, parts...)
	}
	return strings.Join(parts, " > ")
}

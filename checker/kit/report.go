package kit

import (
	"encoding/json"
	"fmt"
	"go/token"
	"os"
	"sort"
	"strings"
)

// Status of an obligation.
type Status string

const (
	Discharged Status = "discharged"
	Violated   Status = "violated"
	Undecided  Status = "undecided"
)

// Obligation is one instance of a rule at one construct.
type Obligation struct {
	Rule       string `json:"rule"`
	Key        string `json:"key"` // construct key made of resolved objects, no line numbers
	Pos        string `json:"pos"`
	Status     Status `json:"status"`
	Why        string `json:"why"`
	Nontrivial bool   `json:"nontrivial"` // needed a path / data-flow argument
	Config     string `json:"config,omitempty"`
}

// Ctx collects the obligations of one property on one program.
type Ctx struct {
	*Prog
	Prop   string
	Obs    []Obligation
	Floors []FloorCheck
	Stats  map[string]int
}

type FloorCheck struct {
	Rule  string `json:"rule"`
	What  string `json:"what"`
	Count int    `json:"count"`
	Min   int    `json:"min"`
}

func NewCtx(p *Prog, prop string) *Ctx {
	return &Ctx{Prog: p, Prop: prop, Stats: map[string]int{}}
}

func (c *Ctx) add(rule, key string, pos token.Pos, st Status, nontrivial bool, why string) {
	c.Obs = append(c.Obs, Obligation{Rule: rule, Key: key, Pos: c.Pos(pos), Status: st, Why: why,
		Nontrivial: nontrivial, Config: c.Cfg.String()})
}

// OK records a discharged obligation that needed a path or data-flow
// argument.
func (c *Ctx) OK(rule, key string, pos token.Pos, why string, a ...any) {
	c.add(rule, key, pos, Discharged, true, fmt.Sprintf(why, a...))
}

// Present records a discharged obligation that is a mere presence /
// membership test.
func (c *Ctx) Present(rule, key string, pos token.Pos, why string, a ...any) {
	c.add(rule, key, pos, Discharged, false, fmt.Sprintf(why, a...))
}

// Bad records a violated obligation.
func (c *Ctx) Bad(rule, key string, pos token.Pos, why string, a ...any) {
	c.add(rule, key, pos, Violated, true, fmt.Sprintf(why, a...))
}

// Unknown records an obligation the engine could not decide.
func (c *Ctx) Unknown(rule, key string, pos token.Pos, why string, a ...any) {
	c.add(rule, key, pos, Undecided, true, fmt.Sprintf(why, a...))
}

// Check records OK or Bad.
func (c *Ctx) Check(ok bool, rule, key string, pos token.Pos, okWhy, badWhy string) bool {
	if ok {
		c.OK(rule, key, pos, "%s", okWhy)
	} else {
		c.Bad(rule, key, pos, "%s", badWhy)
	}
	return ok
}

// Floor asserts that a rule matched at least min instances: a rule that
// silently matches nothing would pass forever.
func (c *Ctx) Floor(rule, what string, count, min int) {
	c.Floors = append(c.Floors, FloorCheck{rule, what, count, min})
}

// ---- known findings ---------------------------------------------------

type KnownFinding struct {
	Property string `json:"property"`
	Rule     string `json:"rule"`
	Key      string `json:"key"`
	What     string `json:"what"`
}

type FixedEntry struct {
	Property string `json:"property"`
	Commit   string `json:"commit"`
	What     string `json:"what"`
}

type KnownFile struct {
	Findings []KnownFinding `json:"findings"`
	Fixed    []string       `json:"fixed"`
}

func LoadKnown(path string) (*KnownFile, error) {
	var k KnownFile
	b, err := os.ReadFile(path)
	if err != nil {
		if os.IsNotExist(err) {
			return &k, nil
		}
		return nil, err
	}
	if err := json.Unmarshal(b, &k); err != nil {
		return nil, fmt.Errorf("%s: %w", path, err)
	}
	return &k, nil
}

// ---- result & evidence ------------------------------------------------

type Result struct {
	Prop        string
	Tier        string
	Seed        int64
	Obs         []Obligation // merged over configs
	Floors      []FloorCheck
	Configs     []string
	Packages    int
	Functions   int
	ModuleFuncs int
	WallS       float64
	Explanation string
	RuleText    string
	Assumptions []string
	Extra       map[string]any
}

// Merge de-duplicates obligations by (rule,key,status): the same construct
// in several build configurations counts once, a violation in any
// configuration wins.
func MergeObs(all []Obligation) []Obligation {
	type k struct{ r, key string }
	best := map[k]Obligation{}
	rank := map[Status]int{Discharged: 0, Undecided: 1, Violated: 2}
	cfgs := map[k][]string{}
	for _, o := range all {
		kk := k{o.Rule, o.Key}
		if cur, ok := best[kk]; !ok || rank[o.Status] > rank[cur.Status] {
			best[kk] = o
		}
		cfgs[kk] = append(cfgs[kk], o.Config)
	}
	var out []Obligation
	for kk, o := range best {
		cs := cfgs[kk]
		sort.Strings(cs)
		cs = uniq(cs)
		o.Config = strings.Join(cs, ",")
		out = append(out, o)
	}
	sort.Slice(out, func(i, j int) bool {
		if out[i].Rule != out[j].Rule {
			return out[i].Rule < out[j].Rule
		}
		return out[i].Key < out[j].Key
	})
	return out
}

func uniq(s []string) []string {
	var out []string
	for i, x := range s {
		if i == 0 || x != s[i-1] {
			out = append(out, x)
		}
	}
	return out
}

// Verdict is the outcome of matching obligations against known findings.
type Verdict struct {
	Violations []Obligation
	Known      []struct {
		O Obligation
		K KnownFinding
	}
	Undecided   []Obligation
	FloorFails  []FloorCheck
	Discharged  int
	Nontrivial  int
	Obligations int
}

func Judge(r *Result, kf *KnownFile) *Verdict {
	v := &Verdict{}
	seenKeys := map[string]bool{}
	for _, o := range r.Obs {
		v.Obligations++
		switch o.Status {
		case Discharged:
			v.Discharged++
			if o.Nontrivial && !seenKeys[o.Rule+"|"+o.Key] {
				v.Nontrivial++
			}
		case Undecided:
			v.Undecided = append(v.Undecided, o)
		case Violated:
			matched := false
			for _, k := range kf.Findings {
				if k.Property == r.Prop && k.Rule == o.Rule && k.Key == o.Key {
					v.Known = append(v.Known, struct {
						O Obligation
						K KnownFinding
					}{o, k})
					matched = true
					break
				}
			}
			if !matched {
				v.Violations = append(v.Violations, o)
			}
		}
		seenKeys[o.Rule+"|"+o.Key] = true
	}
	for _, f := range r.Floors {
		if f.Count < f.Min {
			v.FloorFails = append(v.FloorFails, f)
		}
	}
	return v
}

// WriteEvidence writes evidence/<id>.json per EVIDENCE.schema.json.
func WriteEvidence(path string, r *Result, v *Verdict, cmd string) error {
	var samples []any
	perRule := map[string]int{}
	for _, o := range r.Obs {
		if o.Status == Discharged && o.Nontrivial && perRule[o.Rule] < 2 {
			perRule[o.Rule]++
			samples = append(samples, o)
		}
	}
	if len(samples) == 0 {
		for i, o := range r.Obs {
			if i < 3 {
				samples = append(samples, o)
			}
		}
	}
	var known []string
	for _, k := range v.Known {
		known = append(known, k.O.Rule+" "+k.O.Key)
	}
	ruleCount := map[string]map[string]int{}
	for _, o := range r.Obs {
		if ruleCount[o.Rule] == nil {
			ruleCount[o.Rule] = map[string]int{}
		}
		ruleCount[o.Rule][string(o.Status)]++
	}
	cov := map[string]any{
		"explanation":             r.Explanation,
		"rule":                    r.RuleText,
		"obligations":             v.Obligations,
		"discharged":              v.Discharged,
		"evaluations":             v.Obligations,
		"distinct_nontrivial":     v.Nontrivial,
		"samples":                 samples,
		"checker_cmd":             cmd,
		"trusted_base":            []string{"go/types type checker (go1.26.8)", "golang.org/x/tools v0.50.0 go/ssa construction, dominators, CHA/VTA call graph", "rule slot tables in /verif/checker/rules"},
		"packages":                r.Packages,
		"functions_analysed":      r.Functions,
		"module_functions":        r.ModuleFuncs,
		"configs":                 r.Configs,
		"instance_floors":         r.Floors,
		"per_rule":                ruleCount,
		"known_findings_reported": known,
		"undecided":               len(v.Undecided),
		"exhaustive":              true,
	}
	for k, x := range r.Extra {
		cov[k] = x
	}
	ev := map[string]any{
		"property_id": r.Prop,
		"tier":        r.Tier,
		"seed":        r.Seed,
		"level":       "other",
		"coverage":    cov,
		"assumptions": r.Assumptions,
		"wall_s":      r.WallS,
		"violations":  len(v.Violations),
	}
	b, err := json.MarshalIndent(ev, "", " ")
	if err != nil {
		return err
	}
	return os.WriteFile(path, append(b, '\n'), 0o644)
}

package kit

// K6 "taint with required sanitisers" for C06 / C07.
//
// Three pieces, each small and specific:
//
//  1. APath: the access path of a loaded value back to a root (the decode
//     destination), looking through whole-struct copies into locals
//     (`for _, f := range ib.Files` copies the element into an Alloc).
//  2. ClassFacts: must-facts "predicate pi holds for this value" and, built
//     from complete range loops, "pi holds for EVERY value of this access-path
//     class" (`for _, f := range ib.Files { for _, p := range f.Path { if
//     bad(p) { return err } } }` establishes the universal fact at the loop
//     exit). This is how a validation loop that runs before the consuming loop
//     is recognised as a sanitiser.
//  3. Taint: a module-wide, field-based, flow-insensitive forward propagation
//     with a must-set of sanitiser bits per value (meet = intersection).
//     Struct fields are abstracted by their field object whatever the base
//     (alias-sound by type), so struct copies, pointers and containers of
//     structs need no modelling. Sanitiser bits come from calls in the data
//     path (TaintCfg.Sanitiser) and from guard facts valid where a value is
//     used (TaintCfg.UseBits).

import (
	"fmt"
	"go/constant"
	"go/token"
	"go/types"
	"os"
	"sort"
	"strings"
	"sync"

	"golang.org/x/tools/go/ssa"
)

// ---------------------------------------------------------------- APath --

// PStep is one step of an access path: a field selection or an indexing.
type PStep struct {
	Field *types.Var // non-nil: field step
	Index ssa.Value  // non-nil: index step
}

// APath is root.step.step... for a loaded value. Loads lists every memory
// load instruction on the way (content facts must hold at each of them).
type APath struct {
	Root  ssa.Value
	Steps []PStep
	Loads []ssa.Instruction
}

// singleStore returns the only whole-value store into alloc a, or nil.
func singleStore(a *ssa.Alloc) *ssa.Store {
	var st *ssa.Store
	if a.Referrers() == nil {
		return nil
	}
	for _, r := range *a.Referrers() {
		if s, ok := r.(*ssa.Store); ok && s.Addr == ssa.Value(a) {
			if st != nil {
				return nil
			}
			st = s
		}
	}
	return st
}

// ResolveAPath computes the access path of v. It never fails: an
// unrecognised producer becomes the root.
func ResolveAPath(v ssa.Value) *APath {
	p := &APath{}
	var rev []PStep
	for depth := 0; depth < 32; depth++ {
		switch x := v.(type) {
		case *ssa.UnOp:
			if x.Op != token.MUL {
				p.Root = v
				goto done
			}
			p.Loads = append(p.Loads, x)
			switch a := x.X.(type) {
			case *ssa.FieldAddr:
				if st := derefStruct(a.X.Type()); st != nil {
					rev = append(rev, PStep{Field: st.Field(a.Field)})
					v = a.X
					continue
				}
			case *ssa.IndexAddr:
				rev = append(rev, PStep{Index: a.Index})
				v = a.X
				continue
			case *ssa.Alloc:
				if st := singleStore(a); st != nil {
					v = st.Val
					continue
				}
			}
			p.Root = v
			goto done
		case *ssa.Field:
			if st, ok := x.X.Type().Underlying().(*types.Struct); ok {
				rev = append(rev, PStep{Field: st.Field(x.Field)})
				v = x.X
				continue
			}
			p.Root = v
			goto done
		case *ssa.Index:
			rev = append(rev, PStep{Index: x.Index})
			v = x.X
			continue
		case *ssa.IndexAddr: // address chain without an intermediate load
			rev = append(rev, PStep{Index: x.Index})
			v = x.X
			continue
		case *ssa.FieldAddr:
			if st := derefStruct(x.X.Type()); st != nil {
				rev = append(rev, PStep{Field: st.Field(x.Field)})
				v = x.X
				continue
			}
			p.Root = v
			goto done
		case *ssa.Alloc:
			// pointer to a local that holds a copy of something: follow the copy
			if _, isStruct := derefType(x.Type()).Underlying().(*types.Struct); isStruct {
				if st := singleStore(x); st != nil {
					v = st.Val
					continue
				}
			}
			p.Root = v
			goto done
		case *ssa.ChangeType:
			v = x.X
			continue
		default:
			p.Root = v
			goto done
		}
	}
	p.Root = v
done:
	for i := len(rev) - 1; i >= 0; i-- {
		p.Steps = append(p.Steps, rev[i])
	}
	return p
}

func derefType(t types.Type) types.Type {
	if p, ok := t.Underlying().(*types.Pointer); ok {
		return p.Elem()
	}
	return t
}

// Class renders the path shape: "Files[*].Path[*]".
func (p *APath) Class() string {
	var sb strings.Builder
	for _, s := range p.Steps {
		if s.Field != nil {
			if sb.Len() > 0 {
				sb.WriteByte('.')
			}
			sb.WriteString(s.Field.Name())
		} else {
			sb.WriteString("[*]")
		}
	}
	return sb.String()
}

// Fields lists the field objects on the path.
func (p *APath) Fields() []*types.Var {
	var out []*types.Var
	for _, s := range p.Steps {
		if s.Field != nil {
			out = append(out, s.Field)
		}
	}
	return out
}

// LastField returns the last field step of the path, or nil.
func (p *APath) LastField() *types.Var {
	for i := len(p.Steps) - 1; i >= 0; i-- {
		if p.Steps[i].Field != nil {
			return p.Steps[i].Field
		}
	}
	return nil
}

// SameShape: same root and same field/index shape.
func (p *APath) SameShape(q *APath) bool {
	if p.Root != q.Root || len(p.Steps) != len(q.Steps) {
		return false
	}
	for i := range p.Steps {
		if p.Steps[i].Field != q.Steps[i].Field || (p.Steps[i].Index == nil) != (q.Steps[i].Index == nil) {
			return false
		}
	}
	return true
}

// Equal: same shape and identical index values (same memory cell as long as
// no store intervenes).
func (p *APath) Equal(q *APath) bool {
	if !p.SameShape(q) {
		return false
	}
	for i := range p.Steps {
		if p.Steps[i].Index != q.Steps[i].Index {
			return false
		}
	}
	return true
}

// ----------------------------------------------------------- RangeLoop --

// RangeLoop is `for i(, x) := range seq` over a slice as lowered by go/ssa
// (index = phi(-1, index)+1, test index < len(seq)), or the classic
// `for i := 0; i < len(seq); i++` form.
type RangeLoop struct {
	Header  *ssa.BasicBlock
	Phi     *ssa.Phi
	Idx     ssa.Value // the value used to index the sequence in the body
	Len     ssa.Value // the bound: len(seq)
	Exit    *ssa.BasicBlock
	Latches []*ssa.BasicBlock
}

// RangeLoopOf recognises the loop whose induction value is idx.
func RangeLoopOf(idx ssa.Value) *RangeLoop {
	var phi *ssa.Phi
	switch x := idx.(type) {
	case *ssa.BinOp: // phi + 1
		if x.Op != token.ADD {
			return nil
		}
		if k, ok := ConstInt(x.Y); !ok || k != 1 {
			return nil
		}
		phi, _ = x.X.(*ssa.Phi)
		if phi == nil || x.Block() != phi.Block() {
			return nil
		}
		// phi = [-1, idx]
		for _, e := range phi.Edges {
			if e == idx {
				continue
			}
			if k, ok := ConstInt(e); !ok || k != -1 {
				return nil
			}
		}
	case *ssa.Phi: // [0, phi+1]
		phi = x
		for _, e := range phi.Edges {
			if k, ok := ConstInt(e); ok && k == 0 {
				continue
			}
			b, ok := e.(*ssa.BinOp)
			if !ok || b.Op != token.ADD || b.X != ssa.Value(phi) {
				return nil
			}
			if k, ok := ConstInt(b.Y); !ok || k != 1 {
				return nil
			}
		}
	default:
		return nil
	}
	h := phi.Block()
	if len(h.Instrs) == 0 || len(h.Succs) != 2 {
		return nil
	}
	ifi, ok := h.Instrs[len(h.Instrs)-1].(*ssa.If)
	if !ok {
		return nil
	}
	cmp, ok := ifi.Cond.(*ssa.BinOp)
	if !ok || cmp.Op != token.LSS || cmp.X != idx {
		return nil
	}
	l := &RangeLoop{Header: h, Phi: phi, Idx: idx, Len: cmp.Y, Exit: h.Succs[1]}
	for _, p := range h.Preds {
		if h.Dominates(p) {
			l.Latches = append(l.Latches, p)
		}
	}
	if len(l.Latches) == 0 {
		return nil
	}
	return l
}

// lenOperand returns X of a len(X) call value (or nil).
func lenOperand(v ssa.Value) ssa.Value {
	if c, ok := v.(*ssa.Call); ok {
		if b, ok := c.Call.Value.(*ssa.Builtin); ok && b.Name() == "len" && len(c.Call.Args) == 1 {
			return c.Call.Args[0]
		}
	}
	return nil
}

// ---------------------------------------------------------- ClassFacts --

// ClassFacts decides "pi(v) holds" for values v of one function, where pi
// is given by Subject: it maps a branch-edge atom to the value the atom
// establishes pi for (nil if the atom says nothing).
type ClassFacts struct {
	P       *Prog
	Fn      *ssa.Function
	Subject func(a Atom) ssa.Value
	sites   []*cfSite
}

type cfSite struct {
	x     ssa.Value
	path  *APath
	local *Flow // pi(x) for the current loop indices
	univ  *Flow // pi for every value of the class (nil if loops incomplete)
}

// NewClassFacts scans fn for guard atoms and builds the fact flows.
func (p *Prog) NewClassFacts(fn *ssa.Function, subject func(a Atom) ssa.Value) *ClassFacts {
	cf := &ClassFacts{P: p, Fn: fn, Subject: subject}
	seen := map[ssa.Value]bool{}
	for _, b := range fn.Blocks {
		if len(b.Instrs) == 0 {
			continue
		}
		ifi, ok := b.Instrs[len(b.Instrs)-1].(*ssa.If)
		if !ok {
			continue
		}
		for _, tr := range []bool{true, false} {
			for _, a := range EdgeAtoms(ifi.Cond, tr) {
				if x := subject(a); x != nil && !seen[x] {
					seen[x] = true
					cf.sites = append(cf.sites, cf.buildSite(x))
				}
			}
		}
	}
	return cf
}

// Sites returns the number of guard sites found (for floors).
func (cf *ClassFacts) Sites() int { return len(cf.sites) }

func (cf *ClassFacts) contentKill(path *APath) func(ins ssa.Instruction) bool {
	fields := path.Fields()
	return func(ins ssa.Instruction) bool {
		for _, f := range fields {
			if cf.P.KillsField(ins, f) {
				return true
			}
		}
		// whole-value store over the root local
		if st, ok := ins.(*ssa.Store); ok && st.Addr == path.Root {
			return true
		}
		return false
	}
}

func (cf *ClassFacts) buildSite(x ssa.Value) *cfSite {
	s := &cfSite{x: x, path: ResolveAPath(x)}
	kill := cf.contentKill(s.path)
	// loops bound to the index steps, outer to inner
	var loops []*RangeLoop
	var stepIdx []int
	complete := true
	for i, st := range s.path.Steps {
		if st.Index == nil {
			continue
		}
		stepIdx = append(stepIdx, i)
		l := RangeLoopOf(st.Index)
		if l == nil {
			complete = false
			loops = append(loops, nil)
			continue
		}
		// the loop must range over exactly the container indexed here: the
		// bound is len(C) with C the value the index step was applied to.
		if !cf.loopOverStep(l, s.path, i) {
			complete = false
			loops = append(loops, nil)
			continue
		}
		loops = append(loops, l)
	}
	phis := map[ssa.Instruction]bool{}
	for _, l := range loops {
		if l != nil {
			phis[l.Phi] = true
		}
	}
	for _, st := range s.path.Steps {
		if st.Index != nil {
			// any phi feeding an index invalidates the "current element" fact
			if ph, ok := st.Index.(*ssa.Phi); ok {
				phis[ph] = true
			}
			if b, ok := st.Index.(*ssa.BinOp); ok {
				if ph, ok := b.X.(*ssa.Phi); ok {
					phis[ph] = true
				}
			}
		}
	}
	xIns, _ := x.(ssa.Instruction)
	s.local = &Flow{P: cf.P, Fn: cf.Fn,
		Edge: func(a Atom) bool { return cf.Subject(a) == x },
		Instr: func(ins ssa.Instruction, in bool) bool {
			if !in {
				return false
			}
			if phis[ins] || ins == xIns || kill(ins) {
				return false
			}
			return true
		}}
	s.local.Solve()
	if !complete {
		return s
	}
	// fold the loops from the innermost outwards
	cur := s.local
	for j := len(loops) - 1; j >= 0; j-- {
		l := loops[j]
		for _, lat := range l.Latches {
			if !cur.OnEdge(lat, l.Header) {
				return s // some iteration may skip the check
			}
		}
		outer := map[ssa.Instruction]bool{}
		for _, o := range loops[:j] {
			outer[o.Phi] = true
		}
		idx := l.Idx
		prefix := &APath{Root: s.path.Root, Steps: s.path.Steps[:stepIdx[j]]}
		nf := &Flow{P: cf.P, Fn: cf.Fn,
			Edge: func(a Atom) bool {
				// normal loop exit: !(idx < len)
				if a.Op == token.GEQ && a.L != nil && a.L.V == idx && a.R != nil && a.R.V == l.Len {
					return true
				}
				// the container is empty: vacuously true
				if a.L != nil && a.L.Kind == "len" && a.L.Args[0].V != nil {
					if k, ok := a.R.IntConst(); ok && ((k == 0 && (a.Op == token.EQL || a.Op == token.LEQ)) || (k == 1 && a.Op == token.LSS)) {
						return ResolveAPath(a.L.Args[0].V).Equal(prefix)
					}
				}
				return false
			},
			Instr: func(ins ssa.Instruction, in bool) bool {
				if !in {
					return false
				}
				if outer[ins] || kill(ins) {
					if os.Getenv("RAINLINT_CF") != "" {
						fmt.Fprintf(os.Stderr, "univ killed by %v (block %d)\n", ins, ins.Block().Index)
					}
					return false
				}
				return true
			}}
		nf.Solve()
		cur = nf
	}
	s.univ = cur
	return s
}

// Debug renders the sites (development aid).
func (cf *ClassFacts) Debug() string {
	var sb strings.Builder
	for _, s := range cf.sites {
		fmt.Fprintf(&sb, "site x=%s class=%s root=%s univ=%v\n", s.x.Name(), s.path.Class(), s.path.Root.Name(), s.univ != nil)
	}
	return sb.String()
}

// loopOverStep checks that loop l ranges over the container that index step
// i of path is applied to.
func (cf *ClassFacts) loopOverStep(l *RangeLoop, path *APath, i int) bool {
	seq := lenOperand(l.Len)
	if seq == nil {
		return false
	}
	// path of the sequence must be the prefix path.Steps[:i] from the same root
	sp := ResolveAPath(seq)
	pre := &APath{Root: path.Root, Steps: path.Steps[:i]}
	return sp.Equal(pre)
}

// Holds reports whether pi(v) is a must-fact when v is used at `at`.
func (cf *ClassFacts) Holds(v ssa.Value, at ssa.Instruction) bool {
	return cf.holds(v, at, false)
}

// HoldsForElems reports whether pi holds for every element of container v.
func (cf *ClassFacts) HoldsForElems(v ssa.Value, at ssa.Instruction) bool {
	return cf.holds(v, at, true)
}

func (cf *ClassFacts) holds(v ssa.Value, at ssa.Instruction, elems bool) bool {
	if len(cf.sites) == 0 {
		return false
	}
	vp := ResolveAPath(v)
	for _, s := range cf.sites {
		if !elems {
			if (s.x == v || s.path.Equal(vp)) && at != nil && at.Parent() == cf.Fn && s.local.Before(at) {
				return true
			}
		}
		if s.univ == nil {
			continue
		}
		want := vp
		if elems {
			want = &APath{Root: vp.Root, Steps: append(append([]PStep(nil), vp.Steps...), PStep{Index: v})}
		}
		if !s.path.SameShape(want) {
			continue
		}
		ok := len(vp.Loads) > 0
		for _, ld := range vp.Loads {
			if ld.Parent() != cf.Fn || !s.univ.Before(ld) {
				if os.Getenv("RAINLINT_CF") != "" {
					fmt.Fprintf(os.Stderr, "univ fails before %v (block %d) for %s\n", ld, ld.Block().Index, v.Name())
				}
				ok = false
				break
			}
		}
		if ok {
			return true
		}
	}
	return false
}

// ---------------------------------------------------------------- Taint --

// TaintCfg configures one forward taint problem.
type TaintCfg struct {
	// Source: a load of field f (value ld) is a taint source.
	Source func(ld ssa.Value, f *types.Var) (what string, ok bool)
	// Sanitiser returns the bits a call adds to its tainted argument; the
	// callee is then not entered (its string semantics are trusted).
	Sanitiser func(c *ssa.CallCommon) uint
	// UseBits returns guard-fact bits valid when v is used by instruction use.
	UseBits func(v ssa.Value, use ssa.Instruction) uint
	// StoreBits returns bits granted to whatever is stored into field f: the
	// field is itself a checked sink, so what is read back from it has been
	// judged at the store.
	StoreBits func(f *types.Var) uint
}

// TaintState is the state of one node (SSA value or field object).
type TaintState struct {
	Bits uint   // sanitisers passed on every flow into the node
	Src  string // source of the weakest flow
	From any    // predecessor node on the weakest flow
	Via  string
}

// Taint is a solved taint problem.
type Taint struct {
	P       *Prog
	cfg     TaintCfg
	st      map[any]*TaintState
	work    []any
	inWork  map[any]bool
	idx     *loadIndex
	Escapes map[string]bool // constructs the engine does not model precisely
	tcSeen  map[ssa.Value]bool
}

type loadIndex struct {
	field  map[*types.Var][]ssa.Value
	global map[*ssa.Global][]ssa.Value
	base   map[ssa.Value]ssa.Value // field load -> struct pointer / struct value it selects from
	cls    *objClasses
}

// fieldNode is the abstraction of field F of the objects of allocation
// class C (C == nil: any object).
type fieldNode struct {
	F *types.Var
	C ssa.Value
}

var (
	loadIdxMu sync.Mutex
	loadIdx   = map[*Prog]*loadIndex{}
)

func (p *Prog) loadIndex() *loadIndex {
	loadIdxMu.Lock()
	defer loadIdxMu.Unlock()
	if li := loadIdx[p]; li != nil {
		return li
	}
	li := &loadIndex{field: map[*types.Var][]ssa.Value{}, global: map[*ssa.Global][]ssa.Value{}, base: map[ssa.Value]ssa.Value{}}
	for _, fn := range p.ModuleFunctions() {
		Instrs(fn, func(ins ssa.Instruction) {
			switch x := ins.(type) {
			case *ssa.UnOp:
				if x.Op != token.MUL {
					return
				}
				switch a := x.X.(type) {
				case *ssa.FieldAddr:
					if st := derefStruct(a.X.Type()); st != nil {
						f := st.Field(a.Field)
						li.field[f] = append(li.field[f], x)
						li.base[x] = a.X
					}
				case *ssa.Global:
					li.global[a] = append(li.global[a], x)
				}
			case *ssa.Field:
				if st, ok := x.X.Type().Underlying().(*types.Struct); ok {
					f := st.Field(x.Field)
					li.field[f] = append(li.field[f], x)
					li.base[x] = x.X
				}
			}
		})
	}
	li.cls = newObjClasses(p)
	loadIdx[p] = li
	return li
}

// FieldLoads lists every load of field f in module code.
func (p *Prog) FieldLoads(f *types.Var) []ssa.Value { return p.loadIndex().field[f] }

var errorType = types.Universe.Lookup("error").Type()

// Carries reports whether a value of type t can carry attacker-chosen text.
// Numbers, booleans and error values are excluded (assumption: no path is
// built from an error text or a number).
func Carries(t types.Type) bool { return carries(t, 0) }

func carries(t types.Type, d int) bool {
	if t == nil || d > 6 {
		return false
	}
	if types.Identical(t, errorType) {
		return false
	}
	switch u := t.Underlying().(type) {
	case *types.Basic:
		return u.Info()&types.IsString != 0 || u.Kind() == types.UnsafePointer
	case *types.Slice:
		return isByte(u.Elem()) || carries(u.Elem(), d+1)
	case *types.Array:
		return isByte(u.Elem()) || carries(u.Elem(), d+1)
	case *types.Pointer:
		return carries(u.Elem(), d+1)
	case *types.Map:
		return carries(u.Key(), d+1) || carries(u.Elem(), d+1)
	case *types.Chan:
		return carries(u.Elem(), d+1)
	case *types.Interface:
		return true
	case *types.Tuple:
		for i := 0; i < u.Len(); i++ {
			if carries(u.At(i).Type(), d+1) {
				return true
			}
		}
		return false
	case *types.Struct:
		// module structs are abstracted by their fields; library structs
		// (url.URL, ...) are tracked as values.
		if n, ok := t.(*types.Named); ok && n.Obj().Pkg() != nil && InModule(n.Obj().Pkg().Path()) {
			return false
		}
		for i := 0; i < u.NumFields(); i++ {
			if carries(u.Field(i).Type(), d+1) {
				return true
			}
		}
		return false
	case *types.Signature:
		return false
	}
	return false
}

func isByte(t types.Type) bool {
	b, ok := t.Underlying().(*types.Basic)
	return ok && b.Kind() == types.Uint8
}

// RunTaint solves the problem.
func (p *Prog) RunTaint(cfg TaintCfg) *Taint {
	t := &Taint{P: p, cfg: cfg, st: map[any]*TaintState{}, inWork: map[any]bool{}, idx: p.loadIndex(), Escapes: map[string]bool{}}
	p.CallGraph()
	// seed
	var fields []*types.Var
	for f := range t.idx.field {
		fields = append(fields, f)
	}
	sort.Slice(fields, func(i, j int) bool { return fields[i].Pos() < fields[j].Pos() })
	for _, f := range fields {
		for _, ld := range t.idx.field[f] {
			if what, ok := cfg.Source(ld, f); ok {
				t.taint(ld, 0, what, nil, "source")
			}
		}
	}
	for len(t.work) > 0 {
		n := t.work[len(t.work)-1]
		t.work = t.work[:len(t.work)-1]
		t.inWork[n] = false
		t.process(n)
	}
	return t
}

// Of returns the state of a value (nil = untainted).
func (t *Taint) Of(v ssa.Value) *TaintState { return t.st[v] }

// Chain renders the weakest flow into node n.
func (t *Taint) Chain(n any) string {
	var parts []string
	for i := 0; n != nil && i < 12; i++ {
		s := t.st[n]
		if s == nil {
			break
		}
		parts = append(parts, nodeName(n))
		n = s.From
	}
	// reverse
	for i, j := 0, len(parts)-1; i < j; i, j = i+1, j-1 {
		parts[i], parts[j] = parts[j], parts[i]
	}
	return strings.Join(parts, " -> ")
}

func nodeName(n any) string {
	switch x := n.(type) {
	case fieldNode:
		return "field " + x.F.Name()
	case ssa.Value:
		s := Canon(x).String()
		if len(s) > 60 {
			s = s[:57] + "..."
		}
		return s
	}
	return fmt.Sprint(n)
}

func (t *Taint) taint(n any, bits uint, src string, from any, via string) {
	if v, ok := n.(ssa.Value); ok {
		switch v.(type) {
		case *ssa.Alloc, *ssa.Range:
		default:
			if !Carries(v.Type()) {
				return
			}
		}
	}
	s := t.st[n]
	if s == nil {
		t.st[n] = &TaintState{Bits: bits, Src: src, From: from, Via: via}
	} else {
		nb := s.Bits & bits
		if nb == s.Bits {
			return
		}
		s.Bits, s.Src, s.From, s.Via = nb, src, from, via
	}
	if !t.inWork[n] {
		t.inWork[n] = true
		t.work = append(t.work, n)
	}
}

func (t *Taint) process(n any) {
	s := t.st[n]
	switch x := n.(type) {
	case fieldNode:
		for _, ld := range t.idx.field[x.F] {
			if lc := t.idx.cls.classOf(t.idx.base[ld]); x.C == nil || lc == nil || lc == x.C {
				t.taint(ld, s.Bits, s.Src, n, "load")
			}
		}
	case *ssa.Global:
		for _, ld := range t.idx.global[x] {
			t.taint(ld, s.Bits, s.Src, n, "load")
		}
	case *ssa.Parameter:
		t.uses(x, s)
	case ssa.Value:
		t.uses(x, s)
	}
}

func (t *Taint) uses(v ssa.Value, s *TaintState) {
	refs := v.Referrers()
	if refs == nil {
		return
	}
	for _, r := range *refs {
		bits := s.Bits
		if t.cfg.UseBits != nil {
			bits |= t.cfg.UseBits(v, r)
		}
		t.use(v, r, bits, s.Src)
	}
}

func (t *Taint) use(v ssa.Value, r ssa.Instruction, bits uint, src string) {
	switch x := r.(type) {
	case *ssa.Phi, *ssa.ChangeType, *ssa.Convert, *ssa.ChangeInterface, *ssa.MakeInterface,
		*ssa.TypeAssert, *ssa.Extract, *ssa.Range, *ssa.Next, *ssa.SliceToArrayPointer, *ssa.MultiConvert:
		t.taint(r.(ssa.Value), bits, src, v, "")
	case *ssa.Slice:
		if x.X == v {
			t.taint(x, bits, src, v, "")
		}
	case *ssa.Index:
		if x.X == v {
			t.taint(x, bits, src, v, "")
		}
	case *ssa.IndexAddr:
		if x.X == v {
			t.taint(x, bits, src, v, "")
		}
	case *ssa.Lookup:
		if x.X == v {
			t.taint(x, bits, src, v, "")
		}
	case *ssa.Field:
		t.taint(x, bits, src, v, "")
	case *ssa.FieldAddr:
		t.taint(x, bits, src, v, "")
	case *ssa.UnOp:
		if x.Op == token.MUL || x.Op == token.ARROW {
			t.taint(x, bits, src, v, "")
		}
	case *ssa.BinOp:
		if x.Op == token.ADD {
			t.taint(x, bits, src, v, "concat")
		}
	case *ssa.Store:
		if x.Val == v {
			t.taintAddr(x.Addr, bits, src, v, 0)
		}
	case *ssa.MapUpdate:
		if x.Key == v || x.Value == v {
			t.taintContainer(x.Map, bits, src, v, 0)
		}
	case *ssa.Send:
		if x.X == v {
			t.taintContainer(x.Chan, bits, src, v, 0)
		}
	case *ssa.Select:
		for _, st := range x.States {
			if st.Send == v {
				t.taintContainer(st.Chan, bits, src, v, 0)
			}
			if st.Chan == v && st.Dir == types.RecvOnly {
				t.taint(x, bits, src, v, "recv")
			}
		}
	case *ssa.MakeClosure:
		if fn, ok := x.Fn.(*ssa.Function); ok {
			for i, b := range x.Bindings {
				if b == v && i < len(fn.FreeVars) {
					t.taint(fn.FreeVars[i], bits, src, v, "capture")
				}
			}
		}
	case *ssa.Return:
		fn := x.Parent()
		for _, e := range t.P.CallersOf(fn) {
			if e.Site == nil || !InModule(FnPkgPath(e.Caller.Func)) {
				continue
			}
			if val := e.Site.Value(); val != nil {
				t.taint(val, bits, src, v, "return of "+fn.Name())
			}
		}
	case ssa.CallInstruction:
		t.call(v, x, bits, src)
	}
}

func (t *Taint) taintAddr(addr ssa.Value, bits uint, src string, from ssa.Value, d int) {
	if d == 0 {
		t.tcSeen = map[ssa.Value]bool{}
	}
	if d > 12 {
		return
	}
	switch a := addr.(type) {
	case *ssa.FieldAddr:
		if st := derefStruct(a.X.Type()); st != nil {
			f := st.Field(a.Field)
			if t.cfg.StoreBits != nil {
				bits |= t.cfg.StoreBits(f)
			}
			t.taint(fieldNode{f, t.idx.cls.classOf(a.X)}, bits, src, from, "store")
			return
		}
	case *ssa.IndexAddr:
		t.taintContainer(a.X, bits, src, from, d+1)
		return
	case *ssa.Alloc:
		t.taint(a, bits, src, from, "store")
		return
	case *ssa.Global:
		t.taint(a, bits, src, from, "store")
		return
	}
	// store through some other pointer (parameter, loaded pointer): taint the
	// pointer value and what it was derived from
	t.taintContainer(addr, bits, src, from, d+1)
}

// taintContainer marks the container (slice, map, chan, array, pointer
// target) that x denotes, following x back to where the container lives so
// that other reads of the same container see the taint.
func (t *Taint) taintContainer(x ssa.Value, bits uint, src string, from ssa.Value, d int) {
	if d == 0 {
		t.tcSeen = map[ssa.Value]bool{}
	}
	if t.tcSeen[x] {
		return
	}
	t.tcSeen[x] = true
	if d > 12 {
		w := "container origin too deep"
		if ins, ok := x.(ssa.Instruction); ok && ins.Parent() != nil {
			w += " in " + FuncName(ins.Parent())
		} else if pr, ok := x.(*ssa.Parameter); ok {
			w += " at parameter " + pr.Name() + " of " + FuncName(pr.Parent())
		}
		t.Escapes[w] = true
		return
	}
	switch c := x.(type) {
	case *ssa.UnOp:
		if c.Op == token.MUL {
			t.taint(c, bits, src, from, "")
			t.taintAddr(c.X, bits, src, from, d+1)
			return
		}
	case *ssa.Field:
		if st, ok := c.X.Type().Underlying().(*types.Struct); ok {
			t.taint(fieldNode{st.Field(c.Field), t.idx.cls.classOf(c.X)}, bits, src, from, "store")
			return
		}
	case *ssa.Phi:
		t.taint(c, bits, src, from, "")
		for _, e := range c.Edges {
			if e != x {
				t.taintContainer(e, bits, src, from, d+1)
			}
		}
		return
	case *ssa.Slice:
		t.taint(c, bits, src, from, "")
		t.taintContainer(c.X, bits, src, from, d+1)
		return
	case *ssa.Parameter:
		t.taint(c, bits, src, from, "")
		fn := c.Parent()
		pi := -1
		for i, p := range fn.Params {
			if p == c {
				pi = i
			}
		}
		if !InModule(FnPkgPath(fn)) {
			return
		}
		for _, e := range t.P.CallersOf(fn) {
			if e.Site == nil || pi < 0 || !InModule(FnPkgPath(e.Caller.Func)) {
				continue
			}
			cc := e.Site.Common()
			var arg ssa.Value
			if cc.IsInvoke() {
				if pi == 0 {
					arg = cc.Value
				} else if pi-1 < len(cc.Args) {
					arg = cc.Args[pi-1]
				}
			} else if pi < len(cc.Args) {
				arg = cc.Args[pi]
			}
			if arg != nil {
				t.taintContainer(arg, bits, src, from, d+1)
			}
		}
		return
	case *ssa.ChangeType:
		t.taint(c, bits, src, from, "")
		t.taintContainer(c.X, bits, src, from, d+1)
		return
	case *ssa.Call:
		// append(dst, ...) result or a function returning the container
		t.taint(c, bits, src, from, "")
		if b, ok := c.Call.Value.(*ssa.Builtin); ok && b.Name() == "append" && len(c.Call.Args) > 0 {
			t.taintContainer(c.Call.Args[0], bits, src, from, d+1)
		}
		return
	}
	t.taint(x, bits, src, from, "")
}

func (t *Taint) call(v ssa.Value, ci ssa.CallInstruction, bits uint, src string) {
	cc := ci.Common()
	val := ci.Value() // nil for go/defer
	// positions of v among (receiver, args...)
	var pos []int
	if cc.IsInvoke() {
		if cc.Value == v {
			pos = append(pos, 0)
		}
		for i, a := range cc.Args {
			if a == v {
				pos = append(pos, i+1)
			}
		}
	} else {
		for i, a := range cc.Args {
			if a == v {
				pos = append(pos, i)
			}
		}
	}
	if len(pos) == 0 {
		return // v is the called function value
	}
	if t.cfg.Sanitiser != nil {
		if sb := t.cfg.Sanitiser(cc); sb != 0 {
			if val != nil {
				t.taint(val, bits|sb, src, v, "sanitiser")
			}
			return
		}
	}
	if b, ok := cc.Value.(*ssa.Builtin); ok {
		switch b.Name() {
		case "append":
			if val != nil {
				t.taint(val, bits, src, v, "append")
			}
			if pos[0] != 0 && len(cc.Args) > 0 {
				// elements appended into the backing array of arg 0
				t.taintContainer(cc.Args[0], bits, src, v, 0)
			}
		case "copy":
			if len(cc.Args) == 2 && cc.Args[1] == v {
				t.taintContainer(cc.Args[0], bits, src, v, 0)
			}
		case "min", "max":
			if val != nil {
				t.taint(val, bits, src, v, "")
			}
		}
		return
	}
	callees := t.P.Callees(ci)
	external := len(callees) == 0
	for _, fn := range callees {
		if fn.Blocks == nil || !InModule(FnPkgPath(fn)) {
			external = true
			continue
		}
		for _, i := range pos {
			if i < len(fn.Params) {
				t.taint(fn.Params[i], bits, src, v, "arg of "+fn.Name())
			}
		}
		// variadic: the slice itself is passed, nothing more to do
	}
	if external {
		if val != nil {
			t.taint(val, bits, src, v, "through "+calleeName(cc))
		}
		// callbacks handed to the library in the same call receive
		// library-chosen strings derived from the tainted argument
		for _, a := range cc.Args {
			var cb *ssa.Function
			switch f := a.(type) {
			case *ssa.MakeClosure:
				cb, _ = f.Fn.(*ssa.Function)
			case *ssa.Function:
				cb = f
			}
			if cb != nil && cb.Blocks != nil {
				for _, p := range cb.Params {
					t.taint(p, bits, src, v, "callback of "+calleeName(cc))
				}
			}
		}
		// a library method may keep the argument in its receiver
		// (strings.Builder.WriteString, bytes.Buffer.Write, hash.Write ...)
		// Data written through an interface method (io.Writer, hash.Hash)
		// leaves the name domain: not followed (stated assumption).
		var recv ssa.Value
		if !cc.IsInvoke() && cc.Signature().Recv() != nil && len(cc.Args) > 0 {
			recv = cc.Args[0]
		}
		if recv != nil && recv != v {
			t.taintContainer(recv, bits, src, v, 0)
		}
	}
}

func calleeName(cc *ssa.CallCommon) string {
	if cc.IsInvoke() {
		return cc.Method.Name()
	}
	if fn := cc.StaticCallee(); fn != nil {
		return fn.String()
	}
	return "dynamic call"
}

// ConstStringOf returns the string constant behind v.
func ConstStringOf(v ssa.Value) (string, bool) {
	for {
		switch x := v.(type) {
		case *ssa.ChangeType:
			v = x.X
			continue
		case *ssa.Const:
			if x.Value != nil && x.Value.Kind() == constant.String {
				return constant.StringVal(x.Value), true
			}
		}
		return "", false
	}
}

// ------------------------------------------------------- objClasses --

// objClasses refines the field abstraction by allocation class: a struct
// object allocated at a known site (Alloc / new / composite literal), seen
// through a base that is locally traceable to that site (the local itself,
// an embedded struct of it, a phi, or the result of a module function that
// returns such a fresh object) cannot be the object of another site. Whole
// struct copies merge the classes of source and destination. Every base
// that is not traceable (parameter, loaded pointer, element of a container,
// free variable) is in the global class, which aliases with all classes, so
// escaping pointers are handled conservatively.
type objClasses struct {
	parent map[ssa.Value]ssa.Value
	global map[ssa.Value]bool
	memo   map[ssa.Value]ssa.Value
	done   map[ssa.Value]bool
	busy   map[ssa.Value]bool
	ret    map[*ssa.Function]map[int]ssa.Value
	retOK  map[*ssa.Function]map[int]bool
	frozen bool
}

func newObjClasses(p *Prog) *objClasses {
	o := &objClasses{parent: map[ssa.Value]ssa.Value{}, global: map[ssa.Value]bool{}, memo: map[ssa.Value]ssa.Value{},
		done: map[ssa.Value]bool{}, busy: map[ssa.Value]bool{}, ret: map[*ssa.Function]map[int]ssa.Value{}, retOK: map[*ssa.Function]map[int]bool{}}
	isStruct := func(t types.Type) bool { _, ok := t.Underlying().(*types.Struct); return ok }
	for _, fn := range p.ModuleFunctions() {
		Instrs(fn, func(ins ssa.Instruction) {
			switch x := ins.(type) {
			case *ssa.FieldAddr:
				o.trace(x.X)
			case *ssa.Field:
				o.trace(x.X)
			case *ssa.Store:
				if isStruct(x.Val.Type()) {
					o.union(o.trace(x.Addr), o.trace(x.Val))
				}
			}
		})
	}
	o.frozen = true
	return o
}

func (o *objClasses) find(s ssa.Value) ssa.Value {
	for o.parent[s] != s {
		o.parent[s] = o.parent[o.parent[s]]
		s = o.parent[s]
	}
	return s
}

// union merges two classes; nil is the global class.
func (o *objClasses) union(a, b ssa.Value) ssa.Value {
	switch {
	case a == nil && b == nil:
		return nil
	case a == nil:
		o.global[o.find(b)] = true
		return nil
	case b == nil:
		o.global[o.find(a)] = true
		return nil
	}
	ra, rb := o.find(a), o.find(b)
	if ra != rb {
		o.parent[ra] = rb
		if o.global[ra] {
			o.global[rb] = true
		}
	}
	return rb
}

// classOf returns the class representative of base v (nil: global). Only
// valid after construction.
func (o *objClasses) classOf(v ssa.Value) ssa.Value {
	if v == nil {
		return nil
	}
	s, ok := o.memo[v]
	if !ok || s == nil {
		return nil
	}
	r := o.find(s)
	if o.global[r] {
		return nil
	}
	return r
}

func (o *objClasses) trace(v ssa.Value) ssa.Value {
	if o.done[v] {
		return o.memo[v]
	}
	if o.busy[v] || o.frozen {
		return nil
	}
	o.busy[v] = true
	var r ssa.Value
	switch x := v.(type) {
	case *ssa.Alloc:
		if _, ok := derefType(x.Type()).Underlying().(*types.Struct); ok {
			o.parent[x] = x
			r = x
		}
	case *ssa.FieldAddr:
		r = o.trace(x.X)
	case *ssa.Field:
		r = o.trace(x.X)
	case *ssa.UnOp:
		if x.Op == token.MUL {
			switch x.X.(type) {
			case *ssa.Alloc, *ssa.FieldAddr:
				r = o.trace(x.X)
			}
		}
	case *ssa.Phi:
		for i, e := range x.Edges {
			c := o.trace(e)
			if i == 0 {
				r = c
			} else if r == nil || c == nil {
				o.union(r, c)
				r = nil
			} else {
				r = o.union(r, c)
			}
		}
	case *ssa.ChangeType:
		r = o.trace(x.X)
	case *ssa.Extract:
		if c, ok := x.Tuple.(*ssa.Call); ok {
			r = o.traceResult(c, x.Index)
		}
	case *ssa.Call:
		r = o.traceResult(x, 0)
	}
	o.busy[v] = false
	o.done[v] = true
	o.memo[v] = r
	return r
}

func (o *objClasses) traceResult(c *ssa.Call, i int) ssa.Value {
	fn := c.Call.StaticCallee()
	if fn == nil || fn.Blocks == nil || !InModule(FnPkgPath(fn)) {
		return nil
	}
	if o.retOK[fn] != nil && o.retOK[fn][i] {
		return o.ret[fn][i]
	}
	if o.retOK[fn] == nil {
		o.retOK[fn] = map[int]bool{}
		o.ret[fn] = map[int]ssa.Value{}
	}
	// provisional (recursion): global
	o.retOK[fn][i] = true
	o.ret[fn][i] = nil
	var r ssa.Value
	first := true
	for _, b := range fn.Blocks {
		if len(b.Instrs) == 0 {
			continue
		}
		ret, ok := b.Instrs[len(b.Instrs)-1].(*ssa.Return)
		if !ok || i >= len(ret.Results) {
			continue
		}
		if k, isConst := ret.Results[i].(*ssa.Const); isConst && k.Value == nil {
			continue // nil pointer: no object
		}
		c := o.trace(ret.Results[i])
		if first {
			r, first = c, false
		} else if r == nil || c == nil {
			o.union(r, c)
			r = nil
		} else {
			r = o.union(r, c)
		}
	}
	o.ret[fn][i] = r
	return r
}

// ------------------------------------------------------------ DeepFacts --
//
// DeepFacts evaluates ClassFacts across function boundaries, so that a rule
// does not depend on where a maintainer draws them:
//
//   - downwards (callee summaries): a call H(.., a_i, ..) establishes the
//     universal fact for the class  path(a_i).rest  when, inside H, the fact
//     for  param_i.rest  holds before every return that can report success
//     (returns of a certainly non-nil error are failure exits; the fact is then
//     generated on the caller's err == nil edge of the call, otherwise right
//     after the call). `ib.validateNames()` is a sanitiser of ib.Files[*].Path[*].
//   - upwards (caller context): the fact for a class rooted at a parameter of
//     a helper holds at an instruction of the helper when no instruction between
//     the helper's entry and that instruction kills it and the corresponding
//     fact, rooted at the argument, holds before every static call site
//     (a helper that is spawned / deferred / taken as a value has unknown
//     context). `constructFiles(name, ib.Files, pad)` reads files[j].Path.
//
// Kills are the ones of ClassFacts (any store to a field on the access path
// through any base, calls that may perform one) plus whole-element stores into
// a container on the path.
type DeepFacts struct {
	P       *Prog
	Subject func(a Atom) ssa.Value
	// Scope limits the functions looked into (nil: every module function).
	Scope func(*ssa.Function) bool
	cfs   map[*ssa.Function]*ClassFacts
	down  map[string]*Flow
	nokil map[string]*Flow
	sums  map[string]int
	busy  map[string]bool
}

// NewDeepFacts creates the interprocedural evaluator for predicate `subject`.
func (p *Prog) NewDeepFacts(subject func(a Atom) ssa.Value, scope func(*ssa.Function) bool) *DeepFacts {
	return &DeepFacts{P: p, Subject: subject, Scope: scope, cfs: map[*ssa.Function]*ClassFacts{},
		down: map[string]*Flow{}, nokil: map[string]*Flow{}, sums: map[string]int{}, busy: map[string]bool{}}
}

// Facts returns the intraprocedural facts of fn.
func (d *DeepFacts) Facts(fn *ssa.Function) *ClassFacts {
	cf, ok := d.cfs[fn]
	if !ok {
		cf = d.P.NewClassFacts(fn, d.Subject)
		d.cfs[fn] = cf
		if os.Getenv("RAINLINT_CF") != "" {
			fmt.Fprintf(os.Stderr, "classfacts %s:\n%s", fn.Name(), cf.Debug())
		}
	}
	return cf
}

func (d *DeepFacts) inScope(fn *ssa.Function) bool {
	return fn != nil && fn.Blocks != nil && InModule(FnPkgPath(fn)) && (d.Scope == nil || d.Scope(fn))
}

// Holds reports whether pi(v) is a must-fact when v is used at `at`.
func (d *DeepFacts) Holds(v ssa.Value, at ssa.Instruction) bool {
	if at == nil || !d.inScope(at.Parent()) {
		return false
	}
	if d.Facts(at.Parent()).Holds(v, at) {
		return true
	}
	return d.class(v, false)
}

// HoldsForElems reports whether pi holds for every element of container v.
func (d *DeepFacts) HoldsForElems(v ssa.Value, at ssa.Instruction) bool {
	if at == nil || !d.inScope(at.Parent()) {
		return false
	}
	if d.Facts(at.Parent()).HoldsForElems(v, at) {
		return true
	}
	return d.class(v, true)
}

func (d *DeepFacts) class(v ssa.Value, elems bool) bool {
	vp := ResolveAPath(v)
	if len(vp.Loads) == 0 {
		return false
	}
	want := vp
	if elems {
		want = &APath{Root: vp.Root, Steps: append(append([]PStep(nil), vp.Steps...), PStep{Index: v})}
	}
	for _, ld := range vp.Loads {
		if !d.UnivAt(want, ld, 2) {
			if os.Getenv("RAINLINT_CF") != "" {
				fmt.Fprintf(os.Stderr, "deep: class %s of %s fails before %v in %s\n", want.Class(), want.Root.Name(), ld, ld.Parent().Name())
			}
			return false
		}
	}
	return true
}

func pathKey(fn *ssa.Function, p *APath) string {
	var sb strings.Builder
	fmt.Fprintf(&sb, "%p|%p", fn, p.Root)
	for _, s := range p.Steps {
		if s.Field != nil {
			fmt.Fprintf(&sb, ".%p", s.Field)
		} else {
			sb.WriteString("[*]")
		}
	}
	return sb.String()
}

// univBefore: some complete validation inside the function establishes the
// universal fact of the class before `at`.
func (cf *ClassFacts) univBefore(path *APath, at ssa.Instruction) bool {
	if at.Parent() != cf.Fn {
		return false
	}
	for _, s := range cf.sites {
		if s.univ != nil && s.path.SameShape(path) && s.univ.Before(at) {
			return true
		}
	}
	return false
}

// deepKill is the kill predicate of a class fact in any function.
func (d *DeepFacts) deepKill(path *APath) func(ins ssa.Instruction) bool {
	fields := path.Fields()
	return func(ins ssa.Instruction) bool {
		for _, f := range fields {
			if d.P.KillsField(ins, f) {
				return true
			}
		}
		if st, ok := ins.(*ssa.Store); ok {
			if st.Addr == path.Root {
				return true
			}
			// whole-element / whole-struct store into a container on the path
			if _, isIdx := st.Addr.(*ssa.IndexAddr); isIdx {
				ap := ResolveAPath(st.Addr)
				if ap.Root == path.Root && shapePrefix(ap.Steps, path.Steps, true) {
					return true
				}
			}
		}
		return false
	}
}

// shapePrefix: pre is a shape-prefix of steps (allowIdx: index steps may occur
// in the prefix).
func shapePrefix(pre, steps []PStep, allowIdx bool) bool {
	if len(pre) > len(steps) {
		return false
	}
	for i := range pre {
		if pre[i].Field != steps[i].Field || (pre[i].Index == nil) != (steps[i].Index == nil) {
			return false
		}
		if pre[i].Index != nil && !allowIdx {
			return false
		}
	}
	return true
}

// errNilness: +1 certainly non-nil error value, -1 certainly nil, 0 unknown.
func errNilness(v ssa.Value) int {
	switch x := v.(type) {
	case *ssa.Const:
		if x.Value == nil {
			return -1
		}
	case *ssa.MakeInterface:
		return +1
	case *ssa.Call:
		if fn := x.Call.StaticCallee(); fn != nil && fn.Pkg != nil {
			switch fn.Pkg.Pkg.Path() + "." + fn.Name() {
			case "errors.New", "fmt.Errorf":
				return +1
			}
		}
	}
	return 0
}

const (
	sumNone   = iota + 1
	sumAlways // the fact holds after the call
	sumOnNil  // the fact holds when the trailing error result is nil
)

// summary decides what a call of h establishes for the class `path` rooted at
// one of h's parameters.
func (d *DeepFacts) summary(h *ssa.Function, path *APath, depth int) int {
	k := pathKey(h, path)
	if r, ok := d.sums[k]; ok {
		return r
	}
	if d.busy[k] || depth <= 0 {
		return sumNone
	}
	d.busy[k] = true
	defer delete(d.busy, k)
	res := h.Signature.Results()
	errIdx := -1
	if n := res.Len(); n > 0 && types.Identical(res.At(n-1).Type(), errorType) {
		errIdx = n - 1
	}
	out, rets := sumAlways, 0
	for _, b := range h.Blocks {
		if len(b.Instrs) == 0 || b == h.Recover {
			continue
		}
		r, ok := b.Instrs[len(b.Instrs)-1].(*ssa.Return)
		if !ok {
			continue
		}
		rets++
		if errIdx >= 0 && errIdx < len(r.Results) && errNilness(r.Results[errIdx]) == +1 {
			out = sumOnNil // failure exit
			continue
		}
		if !d.univAt(path, r, 0, depth-1) {
			out = sumNone
			break
		}
	}
	if rets == 0 {
		out = sumNone
	}
	d.sums[k] = out
	return out
}

type deepGen struct {
	call   *ssa.Call
	mode   int
	errVal ssa.Value
}

// heldIn returns the value most recently stored into the cell that `load`
// reads when that store is in the same block (`err = f(); if err != nil`).
func heldIn(load ssa.Value) ssa.Value {
	u, ok := load.(*ssa.UnOp)
	if !ok || u.Op != token.MUL {
		return nil
	}
	if _, ok := u.X.(*ssa.Alloc); !ok {
		return nil
	}
	var held ssa.Value
	for _, ins := range u.Block().Instrs {
		if ins == ssa.Instruction(u) {
			return held
		}
		if st, ok := ins.(*ssa.Store); ok && st.Addr == u.X {
			held = st.Val
		}
	}
	return nil
}

// downFlow builds the flow of the class fact in fn generated by calls whose
// callee establishes it (nil: no such call).
func (d *DeepFacts) downFlow(fn *ssa.Function, path *APath, depth int) *Flow {
	k := pathKey(fn, path)
	if fl, ok := d.down[k]; ok {
		return fl
	}
	if depth <= 0 {
		return nil
	}
	var gens []deepGen
	Instrs(fn, func(ins ssa.Instruction) {
		call, ok := ins.(*ssa.Call)
		if !ok {
			return
		}
		h := call.Call.StaticCallee()
		if h == nil || h == fn || !d.inScope(h) {
			return
		}
		for i, a := range call.Call.Args {
			if i >= len(h.Params) {
				break
			}
			ap := ResolveAPath(a)
			if ap.Root != path.Root || !shapePrefix(ap.Steps, path.Steps, false) {
				continue
			}
			cp := &APath{Root: h.Params[i], Steps: path.Steps[len(ap.Steps):]}
			mode := d.summary(h, cp, depth)
			if mode == sumNone {
				continue
			}
			g := deepGen{call: call, mode: mode}
			if mode == sumOnNil {
				n := h.Signature.Results().Len()
				if n == 1 {
					g.errVal = call
				} else if call.Referrers() != nil {
					for _, r := range *call.Referrers() {
						if ex, ok := r.(*ssa.Extract); ok && ex.Index == n-1 {
							g.errVal = ex
						}
					}
				}
				if g.errVal == nil {
					continue
				}
			}
			gens = append(gens, g)
		}
	})
	var fl *Flow
	if len(gens) > 0 {
		kill := d.deepKill(path)
		fl = &Flow{P: d.P, Fn: fn,
			Edge: func(a Atom) bool {
				return a.IsNilCmp(true, func(x *Expr) bool {
					if x == nil || x.V == nil {
						return false
					}
					v := x.V
					if x.Kind == "deref" {
						if h := heldIn(v); h != nil {
							v = h
						}
					}
					for _, g := range gens {
						if g.mode == sumOnNil && g.errVal == v {
							return true
						}
					}
					return false
				})
			},
			Instr: func(ins ssa.Instruction, in bool) bool {
				for _, g := range gens {
					if g.mode == sumAlways && ssa.Instruction(g.call) == ins {
						return true
					}
				}
				if in && kill(ins) {
					return false
				}
				return in
			}}
		fl.Solve()
	}
	d.down[k] = fl
	return fl
}

// UnivAt reports whether pi holds for every value of the class `path` before
// instruction `at`, looking `up` levels into the callers.
func (d *DeepFacts) UnivAt(path *APath, at ssa.Instruction, up int) bool {
	return d.univAt(path, at, up, 2)
}

func (d *DeepFacts) univAt(path *APath, at ssa.Instruction, up, depth int) bool {
	fn := at.Parent()
	if !d.inScope(fn) {
		return false
	}
	if d.Facts(fn).univBefore(path, at) {
		return true
	}
	if fl := d.downFlow(fn, path, depth); fl != nil && fl.Before(at) {
		return true
	}
	// caller context
	prm, ok := path.Root.(*ssa.Parameter)
	if !ok || up <= 0 || prm.Parent() != fn {
		return false
	}
	idx := -1
	for i, q := range fn.Params {
		if q == prm {
			idx = i
		}
	}
	if idx < 0 {
		return false
	}
	k := pathKey(fn, path)
	nk, ok := d.nokil[k]
	if !ok {
		kill := d.deepKill(path)
		nk = (&Flow{P: d.P, Fn: fn, Entry: true, Instr: func(ins ssa.Instruction, in bool) bool {
			if in && kill(ins) {
				return false
			}
			return in
		}}).Solve()
		d.nokil[k] = nk
	}
	if !nk.Before(at) {
		return false
	}
	if d.busy["up|"+k] {
		return false
	}
	d.busy["up|"+k] = true
	defer delete(d.busy, "up|"+k)
	sites := d.P.StaticCallSites(fn)
	if len(sites) == 0 {
		return false
	}
	for _, site := range sites {
		call, ok := site.(*ssa.Call)
		if !ok || call == nil || idx >= len(call.Call.Args) {
			return false
		}
		ap := ResolveAPath(call.Call.Args[idx])
		for _, s := range ap.Steps {
			if s.Index != nil {
				return false
			}
		}
		cp := &APath{Root: ap.Root, Steps: append(append([]PStep(nil), ap.Steps...), path.Steps...)}
		if !d.univAt(cp, call, up-1, depth) {
			if os.Getenv("RAINLINT_CF") != "" {
				fmt.Fprintf(os.Stderr, "deep: caller context of %s fails at %s (class %s)\n", fn.Name(), d.P.Pos(call.Pos()), cp.Class())
			}
			return false
		}
	}
	return true
}

// OnlyCalledFrom reports whether fn is root, or a function whose every use is
// a plain static call located in a function that (recursively, `depth` levels)
// is only called from root: the code of fn runs only as part of root.
func (p *Prog) OnlyCalledFrom(fn, root *ssa.Function, depth int) bool {
	for fn != nil && fn.Parent() != nil { // closures belong to their declaring function
		fn = fn.Parent()
	}
	if fn == root {
		return true
	}
	if fn == nil || depth <= 0 {
		return false
	}
	sites := p.StaticCallSites(fn)
	if len(sites) == 0 {
		return false
	}
	for _, s := range sites {
		if s == nil || !p.OnlyCalledFrom(s.Parent(), root, depth-1) {
			return false
		}
	}
	return true
}

package kit

import (
	"fmt"
	"go/constant"
	"go/token"
	"go/types"
	"strings"

	"golang.org/x/tools/go/ssa"
)

// Expr is a canonical, structural view of an SSA value. go/ssa performs no
// CSE (every x.f is a fresh load), so rules compare Exprs, not values.
type Expr struct {
	Kind  string // field, index, param, freevar, const, call, binop, not, neg, len, cap, global, alloc, phi, extract, lookup, convert, slice, typeassert, makeiface, recv, other
	V     ssa.Value
	Op    token.Token
	Field *types.Var     // Kind==field
	Fn    *ssa.Function  // Kind==call: static callee (nil for dynamic)
	Obj   types.Object   // call: *types.Func (incl. interface methods, builtins by name in Name); global: *types.Var
	Name  string         // builtin name, param name
	Const constant.Value // Kind==const (nil constant.Value for nil)
	Args  []*Expr        // operands; for field/index/len: Args[0] is the base
	Idx   int            // extract index
	CommaOk bool
}

const maxExprDepth = 12

// Canon canonicalises an SSA value.
func Canon(v ssa.Value) *Expr { return canon(v, 0) }

func canon(v ssa.Value, d int) *Expr {
	if v == nil {
		return &Expr{Kind: "other"}
	}
	if d > maxExprDepth {
		return &Expr{Kind: "other", V: v}
	}
	switch x := v.(type) {
	case *ssa.Const:
		return &Expr{Kind: "const", V: v, Const: x.Value}
	case *ssa.Parameter:
		return &Expr{Kind: "param", V: v, Name: x.Name()}
	case *ssa.FreeVar:
		return &Expr{Kind: "freevar", V: v, Name: x.Name()}
	case *ssa.Global:
		return &Expr{Kind: "global", V: v, Obj: x.Object(), Name: x.Name()}
	case *ssa.Function:
		return &Expr{Kind: "func", V: v, Fn: x}
	case *ssa.Alloc:
		return &Expr{Kind: "alloc", V: v}
	case *ssa.FieldAddr:
		st := derefStruct(x.X.Type())
		if st == nil {
			return &Expr{Kind: "other", V: v}
		}
		return &Expr{Kind: "fieldaddr", V: v, Field: st.Field(x.Field), Args: []*Expr{canon(x.X, d+1)}}
	case *ssa.Field:
		st, _ := x.X.Type().Underlying().(*types.Struct)
		if st == nil {
			return &Expr{Kind: "other", V: v}
		}
		return &Expr{Kind: "field", V: v, Field: st.Field(x.Field), Args: []*Expr{canon(x.X, d+1)}}
	case *ssa.IndexAddr:
		return &Expr{Kind: "indexaddr", V: v, Args: []*Expr{canon(x.X, d+1), canon(x.Index, d+1)}}
	case *ssa.Index:
		return &Expr{Kind: "index", V: v, Args: []*Expr{canon(x.X, d+1), canon(x.Index, d+1)}}
	case *ssa.Lookup:
		return &Expr{Kind: "lookup", V: v, CommaOk: x.CommaOk, Args: []*Expr{canon(x.X, d+1), canon(x.Index, d+1)}}
	case *ssa.UnOp:
		switch x.Op {
		case token.MUL:
			in := canon(x.X, d+1)
			switch in.Kind {
			case "fieldaddr":
				return &Expr{Kind: "field", V: v, Field: in.Field, Args: in.Args}
			case "indexaddr":
				return &Expr{Kind: "index", V: v, Args: in.Args}
			}
			return &Expr{Kind: "deref", V: v, Args: []*Expr{in}}
		case token.NOT:
			return &Expr{Kind: "not", V: v, Args: []*Expr{canon(x.X, d+1)}}
		case token.SUB:
			return &Expr{Kind: "neg", V: v, Args: []*Expr{canon(x.X, d+1)}}
		case token.ARROW:
			return &Expr{Kind: "recv", V: v, CommaOk: x.CommaOk, Args: []*Expr{canon(x.X, d+1)}}
		}
		return &Expr{Kind: "other", V: v}
	case *ssa.BinOp:
		return &Expr{Kind: "binop", V: v, Op: x.Op, Args: []*Expr{canon(x.X, d+1), canon(x.Y, d+1)}}
	case *ssa.Convert:
		return &Expr{Kind: "convert", V: v, Args: []*Expr{canon(x.X, d+1)}}
	case *ssa.ChangeType:
		return canon(x.X, d)
	case *ssa.ChangeInterface:
		return canon(x.X, d)
	case *ssa.MakeInterface:
		return &Expr{Kind: "makeiface", V: v, Args: []*Expr{canon(x.X, d+1)}}
	case *ssa.TypeAssert:
		return &Expr{Kind: "typeassert", V: v, CommaOk: x.CommaOk, Args: []*Expr{canon(x.X, d+1)}}
	case *ssa.Slice:
		e := &Expr{Kind: "slice", V: v, Args: []*Expr{canon(x.X, d+1)}}
		for _, b := range []ssa.Value{x.Low, x.High, x.Max} {
			if b != nil {
				e.Args = append(e.Args, canon(b, d+1))
			} else {
				e.Args = append(e.Args, nil)
			}
		}
		return e
	case *ssa.Extract:
		in := canon(x.Tuple, d+1)
		return &Expr{Kind: "extract", V: v, Idx: x.Index, Args: []*Expr{in}}
	case *ssa.Phi:
		return &Expr{Kind: "phi", V: v}
	case *ssa.Call:
		return canonCall(v, &x.Call, d)
	case *ssa.MakeClosure:
		fn, _ := x.Fn.(*ssa.Function)
		return &Expr{Kind: "closure", V: v, Fn: fn}
	}
	return &Expr{Kind: "other", V: v}
}

func canonCall(v ssa.Value, c *ssa.CallCommon, d int) *Expr {
	e := &Expr{Kind: "call", V: v}
	if c.IsInvoke() {
		e.Obj = c.Method
		e.Name = c.Method.Name()
		e.Args = append(e.Args, canon(c.Value, d+1))
	} else {
		switch f := c.Value.(type) {
		case *ssa.Function:
			e.Fn = f
			if f.Object() != nil {
				e.Obj = f.Object()
			}
			e.Name = f.Name()
		case *ssa.Builtin:
			e.Name = f.Name()
			if e.Name == "len" || e.Name == "cap" {
				return &Expr{Kind: e.Name, V: v, Args: []*Expr{canon(c.Args[0], d+1)}}
			}
			e.Kind = "builtin"
		case *ssa.MakeClosure:
			if fn, ok := f.Fn.(*ssa.Function); ok {
				e.Fn = fn
				e.Name = fn.Name()
			}
		default:
			e.Name = "<dynamic>"
			e.Args = append(e.Args, canon(c.Value, d+1))
		}
	}
	for _, a := range c.Args {
		e.Args = append(e.Args, canon(a, d+1))
	}
	return e
}

func derefStruct(t types.Type) *types.Struct {
	if p, ok := t.Underlying().(*types.Pointer); ok {
		t = p.Elem()
	}
	st, _ := t.Underlying().(*types.Struct)
	return st
}

// String renders the expression deterministically; roots are rendered by
// SSA name so that equal strings within one function mean "same access
// path".
func (e *Expr) String() string {
	if e == nil {
		return "_"
	}
	switch e.Kind {
	case "const":
		if e.Const == nil {
			return "nil"
		}
		return e.Const.ExactString()
	case "param", "freevar":
		return e.Name
	case "global":
		return e.Name
	case "func", "closure":
		if e.Fn != nil {
			return e.Fn.Name()
		}
		return "func?"
	case "field", "fieldaddr":
		pre := ""
		if e.Kind == "fieldaddr" {
			pre = "&"
		}
		return pre + e.Args[0].String() + "." + e.Field.Name()
	case "index", "indexaddr", "lookup":
		return e.Args[0].String() + "[" + e.Args[1].String() + "]"
	case "deref":
		return "*" + e.Args[0].String()
	case "not":
		return "!" + e.Args[0].String()
	case "neg":
		return "-" + e.Args[0].String()
	case "recv":
		return "<-" + e.Args[0].String()
	case "binop":
		return "(" + e.Args[0].String() + " " + e.Op.String() + " " + e.Args[1].String() + ")"
	case "convert":
		return fmt.Sprintf("%s(%s)", types.TypeString(e.V.Type(), func(p *types.Package) string { return p.Name() }), e.Args[0].String())
	case "makeiface":
		return e.Args[0].String()
	case "typeassert":
		return e.Args[0].String() + ".(" + types.TypeString(e.V.(*ssa.TypeAssert).AssertedType, func(p *types.Package) string { return p.Name() }) + ")"
	case "len", "cap":
		return e.Kind + "(" + e.Args[0].String() + ")"
	case "slice":
		s := e.Args[0].String() + "["
		for i, a := range e.Args[1:] {
			if i > 0 {
				s += ":"
			}
			if a != nil {
				s += a.String()
			}
		}
		return s + "]"
	case "extract":
		return fmt.Sprintf("%s#%d", e.Args[0].String(), e.Idx)
	case "call", "builtin":
		var as []string
		for _, a := range e.Args {
			as = append(as, a.String())
		}
		n := e.Name
		if e.Fn != nil && e.Fn.Signature.Recv() != nil {
			n = recvTypeName(e.Fn.Signature.Recv().Type()) + "." + n
		} else if f, ok := e.Obj.(*types.Func); ok && f.Pkg() != nil {
			if sig, ok := f.Type().(*types.Signature); ok && sig.Recv() != nil {
				n = recvTypeName(sig.Recv().Type()) + "." + n
			} else {
				n = f.Pkg().Name() + "." + n
			}
		}
		return n + "(" + strings.Join(as, ", ") + ")"
	}
	if e.V != nil {
		return e.V.Name()
	}
	return "?"
}

func recvTypeName(t types.Type) string {
	if p, ok := t.(*types.Pointer); ok {
		t = p.Elem()
	}
	if n, ok := t.(*types.Named); ok {
		return n.Obj().Name()
	}
	return t.String()
}

// ---- matchers ---------------------------------------------------------

// IsField reports whether e is a load (or address) of field f, whatever
// the base.
func (e *Expr) IsField(f *types.Var) bool {
	return e != nil && (e.Kind == "field" || e.Kind == "fieldaddr") && e.Field == f
}

// Base returns the base expression for field/index/len/... kinds.
func (e *Expr) Base() *Expr {
	if e == nil || len(e.Args) == 0 {
		return nil
	}
	return e.Args[0]
}

// IsCallTo reports whether e is a call whose static callee or method
// object is obj.
func (e *Expr) IsCallTo(obj *types.Func) bool {
	if e == nil || e.Kind != "call" || obj == nil {
		return false
	}
	if e.Obj == obj {
		return true
	}
	if e.Fn != nil && e.Fn.Object() == obj {
		return true
	}
	if f, ok := e.Obj.(*types.Func); ok && f.Origin() == obj {
		return true
	}
	return false
}

// IsConstBool reports whether e is the boolean constant b.
func (e *Expr) IsConstBool(b bool) bool {
	return e != nil && e.Kind == "const" && e.Const != nil && e.Const.Kind() == constant.Bool && constant.BoolVal(e.Const) == b
}

// IsNil reports whether e is the nil constant.
func (e *Expr) IsNil() bool {
	return e != nil && e.Kind == "const" && e.Const == nil
}

// IntConst returns the integer constant value of e.
func (e *Expr) IntConst() (int64, bool) {
	if e == nil || e.Kind != "const" || e.Const == nil || e.Const.Kind() != constant.Int {
		return 0, false
	}
	return constant.Int64Val(e.Const)
}

// Strip removes conversions and interface boxing.
func (e *Expr) Strip() *Expr {
	for e != nil && (e.Kind == "convert" || e.Kind == "makeiface") {
		e = e.Args[0]
	}
	return e
}

// Mentions reports whether any sub-expression satisfies pred.
func (e *Expr) Mentions(pred func(*Expr) bool) bool {
	if e == nil {
		return false
	}
	if pred(e) {
		return true
	}
	for _, a := range e.Args {
		if a.Mentions(pred) {
			return true
		}
	}
	return false
}

// Fields returns the chain of field objects from root to leaf of an access
// path (ignoring index steps), or nil.
func (e *Expr) Fields() []*types.Var {
	var out []*types.Var
	for e != nil {
		switch e.Kind {
		case "field", "fieldaddr":
			out = append([]*types.Var{e.Field}, out...)
			e = e.Args[0]
		case "index", "indexaddr", "deref", "lookup", "slice":
			e = e.Args[0]
		default:
			return out
		}
	}
	return out
}

// Atom is a normalised atomic condition: `L op R` holding with the given
// truth. For a bare boolean b: L=b, Op=EQL, R=const true.
type Atom struct {
	L, R *Expr
	Op   token.Token // EQL NEQ LSS LEQ GTR GEQ
}

func (a Atom) String() string { return a.L.String() + " " + a.Op.String() + " " + a.R.String() }

var negOp = map[token.Token]token.Token{token.EQL: token.NEQ, token.NEQ: token.EQL, token.LSS: token.GEQ,
	token.GEQ: token.LSS, token.GTR: token.LEQ, token.LEQ: token.GTR}
var swapOp = map[token.Token]token.Token{token.EQL: token.EQL, token.NEQ: token.NEQ, token.LSS: token.GTR,
	token.GTR: token.LSS, token.LEQ: token.GEQ, token.GEQ: token.LEQ}

var constTrue = &Expr{Kind: "const", Const: constant.MakeBool(true)}

// AtomOf normalises "cond is <truth>" into an Atom. Boolean expressions
// compared with constants and negations are folded.
func AtomOf(cond *Expr, truth bool) (Atom, bool) {
	for cond != nil && cond.Kind == "not" {
		cond = cond.Args[0]
		truth = !truth
	}
	if cond == nil {
		return Atom{}, false
	}
	if cond.Kind == "binop" {
		if _, ok := negOp[cond.Op]; ok {
			l, r, op := cond.Args[0], cond.Args[1], cond.Op
			if !truth {
				op = negOp[op]
			}
			// fold b == true / b != false etc.
			if op == token.EQL || op == token.NEQ {
				for _, sw := range []bool{false, true} {
					ll, rr := l, r
					if sw {
						ll, rr = r, l
					}
					if rr.Kind == "const" && rr.Const != nil && rr.Const.Kind() == constant.Bool {
						want := constant.BoolVal(rr.Const)
						if op == token.NEQ {
							want = !want
						}
						return AtomOf(ll, want)
					}
				}
			}
			// constants go right
			if l.Kind == "const" && r.Kind != "const" {
				l, r, op = r, l, swapOp[op]
			}
			return Atom{L: l, R: r, Op: op}, true
		}
	}
	if truth {
		return Atom{L: cond, R: constTrue, Op: token.EQL}, true
	}
	return Atom{L: cond, R: constTrue, Op: token.NEQ}, true
}

// IsTrue reports whether the atom says "L is true" for a boolean L matched
// by pred.
func (a Atom) IsTrue(pred func(*Expr) bool) bool {
	return a.Op == token.EQL && a.R == constTrue && pred(a.L)
}

// IsFalse reports whether the atom says "L is false".
func (a Atom) IsFalse(pred func(*Expr) bool) bool {
	return a.Op == token.NEQ && a.R == constTrue && pred(a.L)
}

// IsNilCmp reports "L == nil" (eq=true) or "L != nil" for L matched by
// pred.
func (a Atom) IsNilCmp(eq bool, pred func(*Expr) bool) bool {
	op := token.NEQ
	if eq {
		op = token.EQL
	}
	return a.Op == op && a.R.IsNil() && pred(a.L)
}

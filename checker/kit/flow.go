package kit

import (
	"fmt"
	"go/constant"
	"go/token"
	"go/types"
	"sync"

	"golang.org/x/tools/go/ssa"
)

// Flow is a forward *must* data-flow problem over one function for a
// single boolean fact ("F holds on every path reaching this point").
// Conjunctions are several Flows; a disjunction is one Flow whose Edge /
// Instr callbacks accept any of the disjuncts.
type Flow struct {
	P  *Prog
	Fn *ssa.Function
	// Entry is the fact's value at function entry (true for "no pending
	// obligation"-style facts).
	Entry bool
	// Edge is called for every conditional edge with the branch condition
	// normalised to an Atom; returning true establishes the fact on the
	// edge. It may be nil.
	Edge func(a Atom) bool
	// EdgeKill is called like Edge; returning true clears the fact on the
	// edge. It may be nil.
	EdgeKill func(a Atom) bool
	// Instr is the transfer function of one instruction: it returns the
	// fact after the instruction given the fact before. nil = identity.
	Instr func(ins ssa.Instruction, in bool) bool
	// PhiEdge optionally establishes the fact on the edge pred->succ based
	// on phi operands (used for comma-ok / short-circuit values).
	in  map[*ssa.BasicBlock]bool
	out map[*ssa.BasicBlock]bool

	deep   int
	deepOK func(*ssa.Function) bool
	ds     *deepState
	// NoSummary names call instructions whose effect is defined by the Instr
	// callback through the identity of the call (an "open" point): the
	// callee summary must not overwrite it.
	NoSummary func(ins ssa.Instruction) bool
}

// Solve runs the analysis to its greatest fix-point.
func (f *Flow) Solve() *Flow {
	fn := f.Fn
	f.in = map[*ssa.BasicBlock]bool{}
	f.out = map[*ssa.BasicBlock]bool{}
	for _, b := range fn.Blocks {
		f.in[b] = true
		f.out[b] = true
	}
	if len(fn.Blocks) == 0 {
		return f
	}
	changed := true
	for iter := 0; changed && iter < 10000; iter++ {
		changed = false
		for _, b := range fn.Blocks {
			var in bool
			if b == fn.Blocks[0] {
				in = f.Entry
			} else if b == fn.Recover {
				// the recover block is only entered after a recovered panic;
				// panic paths are exits that need no discharge (DESIGN K3).
				in = true
			} else {
				in = true
				for _, p := range b.Preds {
					if !f.edgeVal(p, b) {
						in = false
						break
					}
				}
				if len(b.Preds) == 0 {
					in = true // unreachable
				}
			}
			out := f.transfer(b, in, nil)
			if in != f.in[b] || out != f.out[b] {
				f.in[b], f.out[b] = in, out
				changed = true
			}
		}
	}
	return f
}

func (f *Flow) edgeVal(p, b *ssa.BasicBlock) bool {
	v := f.out[p]
	if len(p.Instrs) == 0 {
		return v
	}
	ifi, ok := p.Instrs[len(p.Instrs)-1].(*ssa.If)
	if !ok || p.Succs[0] == p.Succs[1] {
		return v
	}
	truth := p.Succs[0] == b
	if f.Edge == nil && f.EdgeKill == nil {
		return v
	}
	for _, a := range EdgeAtoms(ifi.Cond, truth) {
		if f.EdgeKill != nil && f.EdgeKill(a) {
			v = false
		}
		if f.Edge != nil && (f.Edge(a) || f.predicateGen(a)) {
			v = true
		}
	}
	return v
}

// predicateGen: the branch condition is the boolean result of a module
// function (`if !d.acceptable(x) { continue }`): the fact is generated on the
// edge where the result is `want` if, inside the predicate, it holds before
// every return that can yield `want` (guards moved into a bool-returning
// helper). Only sound for function-agnostic callbacks, like callee summaries.
func (f *Flow) predicateGen(a Atom) bool {
	if f.deep <= 0 || f.Edge == nil || a.L == nil || a.R != constTrue {
		return false
	}
	var want bool
	switch a.Op {
	case token.EQL:
		want = true
	case token.NEQ:
		want = false
	default:
		return false
	}
	call, ok := a.L.V.(*ssa.Call)
	if !ok {
		return false
	}
	g := call.Call.StaticCallee()
	if g == nil || g.Blocks == nil || g == f.Fn || !InModule(FnPkgPath(g)) {
		return false
	}
	res := g.Signature.Results()
	if res.Len() != 1 {
		return false
	}
	if b, ok := res.At(0).Type().Underlying().(*types.Basic); !ok || b.Kind() != types.Bool {
		return false
	}
	if f.ds == nil {
		f.ds = &deepState{memo: map[deepKey]bool{}, stack: map[*ssa.Function]bool{}}
	}
	if f.ds.pred == nil {
		f.ds.pred = map[predKey]bool{}
	}
	key := predKey{g, want}
	if v, ok := f.ds.pred[key]; ok {
		return v
	}
	if f.ds.stack[g] {
		return false
	}
	f.ds.stack[g] = true
	sub := &Flow{P: f.P, Fn: g, Entry: false, Edge: f.Edge, EdgeKill: f.EdgeKill, Instr: f.Instr, deep: f.deep - 1, deepOK: f.deepOK, NoSummary: f.NoSummary, ds: f.ds}
	sub.Solve()
	okAll, n := true, 0
	for _, b := range g.Blocks {
		if len(b.Instrs) == 0 {
			continue
		}
		r, isRet := b.Instrs[len(b.Instrs)-1].(*ssa.Return)
		if !isRet || len(r.Results) != 1 {
			continue
		}
		val := r.Results[0]
		// look through the result cell of functions with defers
		if ld, isLoad := val.(*ssa.UnOp); isLoad && ld.Op == token.MUL {
			if cell, isAlloc := ld.X.(*ssa.Alloc); isAlloc {
				for i := len(b.Instrs) - 1; i >= 0; i-- {
					if st, isStore := b.Instrs[i].(*ssa.Store); isStore && st.Addr == ssa.Value(cell) {
						val = st.Val
						break
					}
				}
			}
		}
		if c, isConst := val.(*ssa.Const); isConst && c.Value != nil && c.Value.Kind() == constant.Bool {
			if constant.BoolVal(c.Value) != want {
				continue
			}
		}
		n++
		if !sub.Before(r) {
			okAll = false
		}
	}
	delete(f.ds.stack, g)
	v := okAll && n > 0
	f.ds.pred[key] = v
	return v
}

type predKey struct {
	fn   *ssa.Function
	want bool
}

// EdgeAtoms returns the atoms known to hold when cond evaluates to truth.
// Besides the condition itself it looks through boolean phis produced by
// `x := a && b` style code: if cond is a phi whose other operands are the
// constant !truth, the remaining operand must equal truth.
func EdgeAtoms(cond ssa.Value, truth bool) []Atom {
	var out []Atom
	if a, ok := AtomOf(Canon(cond), truth); ok {
		out = append(out, a)
	}
	c := cond
	t := truth
	for {
		if u, ok := c.(*ssa.UnOp); ok && u.Op.String() == "!" {
			c = u.X
			t = !t
			continue
		}
		break
	}
	if phi, ok := c.(*ssa.Phi); ok {
		var rest []ssa.Value
		for _, e := range phi.Edges {
			if k, ok := e.(*ssa.Const); ok && k.Value != nil && k.Value.Kind().String() == "Bool" {
				if Canon(k).IsConstBool(!t) {
					continue
				}
			}
			rest = append(rest, e)
		}
		if len(rest) == 1 && len(rest) < len(phi.Edges) {
			out = append(out, EdgeAtoms(rest[0], t)...)
		}
	}
	return out
}

func (f *Flow) transfer(b *ssa.BasicBlock, in bool, until ssa.Instruction) bool {
	v := in
	for _, ins := range b.Instrs {
		if ins == until {
			return v
		}
		if c, ok := ins.(*ssa.Call); ok && f.P != nil && f.P.IsNoReturn(&c.Call) {
			return true // path dies here
		}
		in := v
		if f.Instr != nil {
			v = f.Instr(ins, v)
		}
		if g := f.deepCallee(ins); g != nil && (f.NoSummary == nil || !f.NoSummary(ins)) {
			if f.ds == nil {
				f.ds = &deepState{memo: map[deepKey]bool{}, stack: map[*ssa.Function]bool{}}
			}
			// the call itself is a generator for the rule: keep it. Otherwise the
			// callee's body (processed with the same callbacks) decides, which is
			// more precise than a transitive may-store kill.
			if !(v && !in) {
				v = f.summary(g, in, f.deep, f.ds)
			}
		}
	}
	return v
}

// Before returns the fact just before ins executes.
func (f *Flow) Before(ins ssa.Instruction) bool {
	b := ins.Block()
	return f.transfer(b, f.in[b], ins)
}

// AtEnd returns the fact at the end of block b (before edge effects).
func (f *Flow) AtEnd(b *ssa.BasicBlock) bool { return f.out[b] }

// OnEdge returns the fact on the edge p->b.
func (f *Flow) OnEdge(p, b *ssa.BasicBlock) bool { return f.edgeVal(p, b) }

// FailingReturns lists the Return instructions reached with the fact
// false.
func (f *Flow) FailingReturns() []*ssa.Return {
	var out []*ssa.Return
	for _, b := range f.Fn.Blocks {
		if len(b.Instrs) == 0 {
			continue
		}
		if r, ok := b.Instrs[len(b.Instrs)-1].(*ssa.Return); ok {
			if !f.Before(r) {
				out = append(out, r)
			}
		}
	}
	return out
}

// ---- no-return functions ---------------------------------------------

var noRetMu sync.Mutex

// IsNoReturn reports whether a call never returns (callee ends in panic /
// os.Exit / log.Fatal on every path). Computed structurally for module
// functions.
func (p *Prog) IsNoReturn(c *ssa.CallCommon) bool {
	fn := c.StaticCallee()
	if fn == nil {
		if b, ok := c.Value.(*ssa.Builtin); ok && b.Name() == "panic" {
			return true
		}
		return false
	}
	return p.noReturnFn(fn, 0)
}

var noRetCache = map[*ssa.Function]int{} // 0 unknown, 1 returns, 2 noreturn

func (p *Prog) noReturnFn(fn *ssa.Function, depth int) bool {
	noRetMu.Lock()
	st := noRetCache[fn]
	noRetMu.Unlock()
	if st != 0 {
		return st == 2
	}
	res := false
	if fn.Blocks == nil || depth > 4 {
		if fn.Pkg != nil && fn.Object() != nil {
			switch fn.Pkg.Pkg.Path() + "." + fn.Name() {
			case "os.Exit", "log.Fatal", "log.Fatalf", "log.Fatalln", "runtime.Goexit":
				res = true
			}
		}
	} else if fn.Pkg != nil && (InModule(fn.Pkg.Pkg.Path()) || fn.Pkg.Pkg.Path() == "os" || fn.Pkg.Pkg.Path() == "log") {
		// provisional: returns (breaks recursion)
		noRetMu.Lock()
		noRetCache[fn] = 1
		noRetMu.Unlock()
		res = !p.canReturn(fn, depth)
	}
	noRetMu.Lock()
	if res {
		noRetCache[fn] = 2
	} else {
		noRetCache[fn] = 1
	}
	noRetMu.Unlock()
	return res
}

func (p *Prog) canReturn(fn *ssa.Function, depth int) bool {
	seen := map[*ssa.BasicBlock]bool{}
	var walk func(b *ssa.BasicBlock) bool
	walk = func(b *ssa.BasicBlock) bool {
		if seen[b] {
			return false
		}
		seen[b] = true
		for _, ins := range b.Instrs {
			switch x := ins.(type) {
			case *ssa.Call:
				if callee := x.Call.StaticCallee(); callee != nil && p.noReturnFn(callee, depth+1) {
					return false
				}
				if bi, ok := x.Call.Value.(*ssa.Builtin); ok && bi.Name() == "panic" {
					return false
				}
			case *ssa.Return:
				return true
			case *ssa.Panic:
				return false
			}
		}
		for _, s := range b.Succs {
			if walk(s) {
				return true
			}
		}
		return false
	}
	if walk(fn.Blocks[0]) {
		return true
	}
	if fn.Recover != nil {
		return true
	}
	return false
}

// ---- common instruction predicates -----------------------------------

// StoresField reports whether ins stores to field f (through any base);
// returns the stored value.
func StoresField(ins ssa.Instruction, f *types.Var) (ssa.Value, bool) {
	st, ok := ins.(*ssa.Store)
	if !ok {
		return nil, false
	}
	fa, ok := st.Addr.(*ssa.FieldAddr)
	if !ok {
		return nil, false
	}
	s := derefStruct(fa.X.Type())
	if s == nil || s.Field(fa.Field) != f {
		return nil, false
	}
	return st.Val, true
}

// CallOf returns the CallCommon of a Call / Go / Defer instruction.
func CallOf(ins ssa.Instruction) *ssa.CallCommon {
	switch x := ins.(type) {
	case *ssa.Call:
		return &x.Call
	case *ssa.Go:
		return &x.Call
	case *ssa.Defer:
		return &x.Call
	}
	return nil
}

// CalleeObj returns the called function object of a call (static callee's
// object, or the interface method), or nil.
func CalleeObj(c *ssa.CallCommon) *types.Func {
	if c == nil {
		return nil
	}
	if c.IsInvoke() {
		return c.Method
	}
	if fn := c.StaticCallee(); fn != nil {
		if o, ok := fn.Object().(*types.Func); ok {
			return o.Origin()
		}
	}
	return nil
}

// IsCall reports whether ins is a plain call (not go/defer) to obj.
func IsCall(ins ssa.Instruction, obj *types.Func) bool {
	c, ok := ins.(*ssa.Call)
	return ok && CalleeObj(&c.Call) == obj
}

// CallsAny reports whether ins is a call/defer to any of objs.
func CallsAny(ins ssa.Instruction, objs ...*types.Func) bool {
	c := CallOf(ins)
	if c == nil {
		return false
	}
	if _, isGo := ins.(*ssa.Go); isGo {
		return false
	}
	o := CalleeObj(c)
	if o == nil {
		return false
	}
	for _, x := range objs {
		if x == o {
			return true
		}
	}
	return false
}

// Instrs iterates over all instructions of fn in block order.
func Instrs(fn *ssa.Function, f func(ssa.Instruction)) {
	for _, b := range fn.Blocks {
		for _, ins := range b.Instrs {
			f(ins)
		}
	}
}

// WithAnon returns fn and all closures nested in it.
func WithAnon(fn *ssa.Function) []*ssa.Function {
	out := []*ssa.Function{fn}
	for _, a := range fn.AnonFuncs {
		out = append(out, WithAnon(a)...)
	}
	return out
}

// DumpAtoms prints every conditional edge atom of fn (development aid).
func DumpAtoms(fn *ssa.Function) []string {
	var out []string
	for _, b := range fn.Blocks {
		if len(b.Instrs) == 0 {
			continue
		}
		if ifi, ok := b.Instrs[len(b.Instrs)-1].(*ssa.If); ok {
			for _, tr := range []bool{true, false} {
				for _, a := range EdgeAtoms(ifi.Cond, tr) {
					out = append(out, fmt.Sprintf("b%d %v: %s", b.Index, tr, a))
				}
			}
		}
	}
	return out
}

// ---- interprocedural support --------------------------------------------
//
// Rules must not depend on where a maintainer draws function boundaries.
// Two mechanisms make a Flow robust against "extract helper" refactorings:
//
//  * Deep (callee summaries, downwards): a call to a module function with a
//    body is transferred by running the same fact on the callee with the
//    caller's current value as entry value; the result is the conjunction
//    over the callee's returns. Only sound for function-agnostic callbacks
//    (facts keyed on fields / callees, not on SSA values of one function).
//  * Spec.Holds (caller context, upwards): a fact holds before an instruction
//    of a helper if it holds there assuming it at entry, and it holds before
//    every call site of the helper (recursively, bounded).

// deepState carries memoised callee summaries for one Solve.
type deepState struct {
	memo  map[deepKey]bool
	stack map[*ssa.Function]bool
	pred  map[predKey]bool
}

type deepKey struct {
	fn *ssa.Function
	in bool
}

// WithDeep enables callee summaries to the given depth for module callees
// accepted by ok (nil = every module function with a body).
func (f *Flow) WithDeep(depth int, ok func(*ssa.Function) bool) *Flow {
	f.deep = depth
	f.deepOK = ok
	return f
}

func (f *Flow) summary(g *ssa.Function, in bool, depth int, st *deepState) bool {
	k := deepKey{g, in}
	if v, ok := st.memo[k]; ok {
		return v
	}
	if st.stack[g] || depth <= 0 {
		return false
	}
	st.stack[g] = true
	sub := &Flow{P: f.P, Fn: g, Entry: in, Edge: f.Edge, EdgeKill: f.EdgeKill, Instr: f.Instr, deep: depth - 1, deepOK: f.deepOK, NoSummary: f.NoSummary, ds: st}
	sub.Solve()
	res := true
	rets := 0
	for _, b := range g.Blocks {
		if len(b.Instrs) == 0 {
			continue
		}
		if r, ok := b.Instrs[len(b.Instrs)-1].(*ssa.Return); ok {
			rets++
			if !sub.Before(r) {
				res = false
			}
		}
	}
	delete(st.stack, g)
	st.memo[k] = res
	return res
}

// deepCallee returns the callee to summarise for a call instruction, or nil.
func (f *Flow) deepCallee(ins ssa.Instruction) *ssa.Function {
	if f.deep <= 0 {
		return nil
	}
	call, ok := ins.(*ssa.Call)
	if !ok {
		return nil
	}
	g := call.Call.StaticCallee()
	if g == nil {
		// immediately invoked closure
		if mc, ok := call.Call.Value.(*ssa.MakeClosure); ok {
			g, _ = mc.Fn.(*ssa.Function)
		}
	}
	if g == nil || g.Blocks == nil || g == f.Fn || !InModule(FnPkgPath(g)) {
		return nil
	}
	if f.deepOK != nil && !f.deepOK(g) {
		return nil
	}
	return g
}

// Spec is a function-agnostic fact definition that can be evaluated in any
// function and across call boundaries.
type Spec struct {
	P        *Prog
	Edge     func(a Atom) bool
	EdgeKill func(a Atom) bool
	Instr    func(ins ssa.Instruction, in bool) bool
	Deep     int // callee summary depth (0 = none)
	// NoSummary: see Flow.NoSummary
	NoSummary func(ins ssa.Instruction) bool
	flows    map[deepKey]*Flow
}

// On returns the solved flow of the spec on fn with the given entry value.
func (s *Spec) On(fn *ssa.Function, entry bool) *Flow {
	if s.flows == nil {
		s.flows = map[deepKey]*Flow{}
	}
	k := deepKey{fn, entry}
	if fl, ok := s.flows[k]; ok {
		return fl
	}
	fl := (&Flow{P: s.P, Fn: fn, Entry: entry, Edge: s.Edge, EdgeKill: s.EdgeKill, Instr: s.Instr, NoSummary: s.NoSummary}).WithDeep(s.Deep, nil).Solve()
	s.flows[k] = fl
	return fl
}

// Holds reports whether the fact holds on every path reaching ins, looking
// up to `up` levels into the callers of the enclosing function when the
// fact is not established inside it.
func (s *Spec) Holds(ins ssa.Instruction, up int) bool {
	return s.holds(ins, up, map[*ssa.Function]bool{})
}

func (s *Spec) holds(ins ssa.Instruction, up int, busy map[*ssa.Function]bool) bool {
	fn := ins.Parent()
	if s.On(fn, false).Before(ins) {
		return true
	}
	if up <= 0 || busy[fn] || !s.On(fn, true).Before(ins) {
		return false
	}
	sites := s.P.StaticCallSites(fn)
	if len(sites) == 0 {
		return false
	}
	busy[fn] = true
	defer delete(busy, fn)
	for _, site := range sites {
		if site == nil {
			return false // referenced as a value / spawned: unknown context
		}
		if !s.holds(site, up-1, busy) {
			return false
		}
	}
	return true
}
